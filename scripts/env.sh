# sourced by every script: offline Go environment, module mode (go.work disabled)
export GOFLAGS=-mod=mod GOPROXY=off GOSUMDB=off GOTOOLCHAIN=local GOWORK=off
export CARGO_NET_OFFLINE=true PIP_NO_INDEX=1
export VERIF_ROOT="${VERIF_ROOT:-/verif}"
export REPO_ROOT="${REPO_ROOT:-/repo}"
export GO126="${GO126:-go1.26.8}"
