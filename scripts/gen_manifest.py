#!/usr/bin/env python3
"""Generates /verif/MANIFEST.json from the table below (single source of truth)."""
import json, os, subprocess
HERE = os.path.dirname(os.path.dirname(os.path.abspath(__file__)))
hooks_commits = subprocess.run(['git','-C','/repo','log','--format=%H %s'],capture_output=True,text=True).stdout.splitlines()
hook_commits = [l.split()[0] for l in hooks_commits if l.split(' ',1)[1].startswith('verif hooks')]

CLAIMED = {
 # id: (design section, technique, level text, level note)
 'C01': ('6/C01', 'seeded whole-system simulation: real day loop with sub-step probes, buggified sub-step counts, per-step water-balance invariant',
         'Exploration: thousands of generated worlds (soil x weather x management x configuration) are run through the real session.Run; the balance identity is evaluated at every sub-step and day from probes, with the sub-step count perturbed by a cooperative fault point; the public counters (percolation, capillary supply, drain, the reported daily net bottom flux, the uptake credited as groundwater supply) must agree with the fluxes. Sampling, not proof.',
         'Trusts the verif probe hooks to expose the state unmodified, the generator to stay inside the property\'s quantifier (constant groundwater; measurement days excluded), IEEE double arithmetic; tolerance 1e-9 + 1e-12*sum|terms|.'),
}
NOT_YET = {}

def main():
    props = [json.loads(l) for l in open(os.path.join(HERE,'properties.jsonl'))]
    checks=[]; na=[]
    extra = json.load(open(os.path.join(HERE,'scripts','manifest_table.json'))) if os.path.exists(os.path.join(HERE,'scripts','manifest_table.json')) else {}
    claimed = dict(CLAIMED); claimed.update({k:tuple(v) for k,v in extra.get('claimed',{}).items()})
    na_reasons = extra.get('not_applicable',{})
    for p in props:
        pid=p['id']
        if pid in claimed:
            sec,tech,text,note = claimed[pid]
            checks.append({
              'property_id': pid,
              'quick_cmd': f'./check {pid} quick',
              'thorough_cmd': f'./check {pid} thorough',
              'evidence_file': f'/verif/evidence/{pid}.json',
              'replay_cmd_template': f'./check {pid} --replay {{path}}',
              'engine': 'hermes-dst',
              'level_claimed': {'category':'exploration','text':text,'design_ref':sec},
              'level_note': note,
              'technique': tech,
            })
        else:
            na.append({'property_id':pid,'reason':na_reasons.get(pid,'check not built yet in this session (planned in DESIGN.md section 6); not claimed until it exists')})
    m={
      'version':1,
      'setup_cmd':'./check build',
      'hooks':{
        'guard':'verif',
        'enable':'go1.26.8 test -c -tags verif -overlay <generated> ./src/hermes2go (scripts/build.sh; GOWORK=off GOFLAGS=-mod=mod GOPROXY=off)',
        'baseline_off_cmd':'/verif/scripts/baseline_off.sh',
        'source_commits': hook_commits,
        'add_only': True,
      },
      'engines':[{'name':'hermes-dst','path':'/verif/sim','serves_properties':[c['property_id'] for c in checks],
                  'kind_free_text':'deterministic simulation with fault injection: seeded scheduler over the real batch dispatcher (testing/synctest bubble), simulated disk behind the OutWriter seam, generated worlds, sub-step buggify, probes; own minimiser and replay'}],
      'checks':checks,
      'not_applicable':na,
      'notes':'All checks are one binary built from /repo\'s working tree by scripts/build.sh. exit 0 held / 1 VIOLATION / 2 build or harness trouble. Known findings: /verif/known_findings.json.',
    }
    json.dump(m,open(os.path.join(HERE,'MANIFEST.json'),'w'),indent=1)
    print('claimed',len(checks),'not claimed',len(na))
main()
