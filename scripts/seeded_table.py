#!/usr/bin/env python3
# Prints the markdown table rows of DESIGN.md section 12 from seeded/*/meta.json. usage: seeded_table.py [round]
import json,os,sys
rnd=int(sys.argv[1]) if len(sys.argv)>1 else 2
rows=[]
for d in sorted(os.listdir('/verif/seeded')):
    mp=f'/verif/seeded/{d}/meta.json'
    if not os.path.exists(mp): continue
    m=json.load(open(mp))
    if m.get('round',1)!=rnd: continue
    what=open(f'/verif/seeded/{d}/NOTES.md').readline().strip().lstrip('# ').strip()
    what=what.split(' - ',1)[1] if ' - ' in what else what
    cr=m.get('check_run',{})
    chk=m.get('check_with',m['property'])
    tier=cr.get('command','').split()[-1] if cr else '?'
    det='%d/%d (%s)'%(cr.get('violating_scenarios',0),cr.get('scenarios',0),tier) if cr.get('detected') else 'MISSED'
    cls=', '.join(cr.get('violation_classes',[])[:2])
    rows.append(f"| {d} | {what[:170]} | `./check {chk}` | {det} | {cls} | {m.get('initially_missed','—')} |")
print('\n'.join(rows))
