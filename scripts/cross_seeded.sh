#!/bin/bash
# Runs other checks than the designated one against a seeded change (quick tier) and prints one line per (change, check).
# usage: cross_seeded.sh <id> <prop> [<prop>...]
set -u
HERE="$(cd "$(dirname "$0")/.." && pwd)"; cd "$HERE"
id=$1; shift
for prop in "$@"; do
  race=0; [ "$prop" = C03 ] && race=1
  out=$(VERIF_BUILD_RACE=$race VERIF_MINIMISE_S=10 scripts/with_tree.sh -p $HERE/seeded/$id/patch.diff -- ./check $prop quick 2>&1); rc=$?
  classes=$(echo "$out" | grep -o 'class=[^ ]*' | sed 's/class=//' | sort -u | tr '\n' ' ')
  echo "$id x $prop exit=$rc $(echo "$out" | tail -1 | grep -o 'violation_scenarios=[0-9]*') $classes"
done
