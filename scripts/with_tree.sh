#!/bin/bash
# Runs a command against a scratch copy of /repo's HEAD with changes applied, leaving /repo and /verif untouched.
# usage: with_tree.sh [-r <commit-to-revert>]... [-p <patch.diff>]... [-c <commit-to-checkout>] -- <command...>
# The command sees REPO_ROOT (scratch tree), VERIF_BUILD_DIR and VERIF_OUT_ROOT (scratch dirs); all removed afterwards.
set -u
HERE="$(cd "$(dirname "$0")/.." && pwd)"
WT=$(mktemp -d /tmp/vtree.XXXXXX); OUT=$(mktemp -d /tmp/vout.XXXXXX)
rmdir "$WT"
base=HEAD; reverts=(); patches=()
while [ $# -gt 0 ]; do
  case "$1" in
    -r) reverts+=("$2"); shift 2;;
    -p) patches+=("$2"); shift 2;;
    -c) base="$2"; shift 2;;
    --) shift; break;;
    *) break;;
  esac
done
cleanup() { git -C /repo worktree remove --force "$WT" >/dev/null 2>&1; rm -rf "$WT" "$OUT"; git -C /repo worktree prune; }
trap cleanup EXIT
git -C /repo worktree add -q --detach "$WT" "$base" || exit 2
for r in "${reverts[@]:-}"; do [ -n "$r" ] && { git -C "$WT" revert -n "$r" >/dev/null 2>&1 || { echo "revert of $r failed" >&2; exit 2; }; }; done
for p in "${patches[@]:-}"; do [ -n "$p" ] && { git -C "$WT" apply "$p" || { echo "patch $p failed" >&2; exit 2; }; }; done
export REPO_ROOT="$WT" VERIF_BUILD_DIR="$OUT/build" VERIF_OUT_ROOT="$OUT" VERIF_BUILD_RACE="${VERIF_BUILD_RACE:-0}"
"$@"
rc=$?
if [ -n "${KEEP_REPLAYS:-}" ] && [ -d "$OUT/replays" ]; then mkdir -p "$KEEP_REPLAYS"; cp "$OUT"/replays/* "$KEEP_REPLAYS"/ 2>/dev/null; fi
exit $rc
