#!/bin/bash
# validates MANIFEST.json and every evidence file against the schemas
python3-vt - <<'PY'
import json,jsonschema,glob,sys
ok=True
try:
    jsonschema.validate(json.load(open('/verif/MANIFEST.json')),json.load(open('/root/.vp/MANIFEST.schema.json'))); print('MANIFEST valid')
except Exception as e: print('MANIFEST INVALID',e); ok=False
es=json.load(open('/root/.vp/EVIDENCE.schema.json'))
for f in sorted(glob.glob('/verif/evidence/*.json')):
    try: jsonschema.validate(json.load(open(f)),es); print(f,'valid')
    except Exception as e: print(f,'INVALID',str(e)[:300]); ok=False
sys.exit(0 if ok else 1)
PY
