#!/bin/bash
# Runs the designated check (quick tier; thorough if quick stays silent) against every seeded change and records the outcome in meta.json.
# usage: run_seeded.sh [ids...]   (default: all)
set -u
HERE="$(cd "$(dirname "$0")/.." && pwd)"; cd "$HERE"
ids=("$@"); [ ${#ids[@]} -eq 0 ] && ids=($(ls seeded))
for id in "${ids[@]}"; do
  d=seeded/$id; prop=${id%%-*}
  # a change written against one property may break it only through behaviour another check owns (meta.json: check_with)
  cw=$(python3 -c "import json,sys;print(json.load(open('$d/meta.json')).get('check_with',''))" 2>/dev/null); [ -n "$cw" ] && prop=$cw
  race=0; [ "$prop" = C03 ] && race=1
  t0=$(date +%s)
  out=$(VERIF_BUILD_RACE=$race VERIF_MINIMISE_S=15 scripts/with_tree.sh -p $HERE/$d/patch.diff -- ./check $prop quick 2>&1); rc=$?
  tier=quick
  if [ $rc -eq 0 ] && [ -z "${QUICK_ONLY:-}" ]; then
    out=$(VERIF_BUILD_RACE=$race VERIF_MINIMISE_S=15 VERIF_BUDGET_S=900 scripts/with_tree.sh -p $HERE/$d/patch.diff -- ./check $prop thorough 2>&1); rc=$?; tier=thorough
  fi
  t1=$(date +%s)
  classes=$(echo "$out" | grep -o 'class=[^ ]*' | sed 's/class=//' | sort -u | tr '\n' ' ')
  nscen=$(echo "$out" | grep -o 'violation_scenarios=[0-9]*' | tail -1 | sed 's/.*=//')
  total=$(echo "$out" | grep -o ' scenarios=[0-9]*' | tail -1 | sed 's/.*=//')
  python3 - "$d/meta.json" "$prop" "$tier" "$rc" "$classes" "${nscen:-0}" "${total:-0}" "$((t1-t0))" <<'PY'
import json,sys
p,prop,tier,rc,classes,nscen,total,secs=sys.argv[1:9]
m=json.load(open(p))
m['check_run']={'command':f'scripts/with_tree.sh -p seeded/{m["id"]}/patch.diff -- ./check {prop} {tier}','exit':int(rc),'detected':int(rc)==1,'violation_classes':classes.split(),'violating_scenarios':int(nscen),'scenarios':int(total),'seconds':int(secs)}
json.dump(m,open(p,'w'),indent=1)
print(m['id'],tier,'exit',rc,'scenarios',nscen,'/',total,classes[:120])
PY
done
