#!/bin/bash
# Confirms a seeded change: usage confirm_mutant.sh <dir with patch.diff and demo/run.sh>
#  1. the patch applies to /repo HEAD in a scratch worktree, all buildable modules build, the pinned suite (guard off) passes
#  2. demo/run.sh <tree> exits 0 on the unchanged tree and non-zero on the changed tree
set -u
D="$(cd "$1" && pwd)"
WT=$(mktemp -d /tmp/cm.XXXXXX); rmdir "$WT"
cleanup() { git -C /repo worktree remove --force "$WT" >/dev/null 2>&1; rm -rf "$WT"; git -C /repo worktree prune; }
trap cleanup EXIT
git -C /repo worktree add -q --detach "$WT" HEAD || exit 2
export GOFLAGS=-mod=mod GOPROXY=off GOSUMDB=off GOTOOLCHAIN=local GOWORK=off
echo "== demo on the unchanged tree (must pass)"
( cd "$D/demo" && timeout 600 bash ./run.sh "$WT" ) >"$WT.clean.log" 2>&1; rc_clean=$?
git -C "$WT" checkout -q -- . ; git -C "$WT" clean -fdq
P="$D/patch.diff"; [ -f "$D/patch.rebased.diff" ] && P="$D/patch.rebased.diff"; git -C "$WT" apply "$P" || { echo "PATCH DOES NOT APPLY"; exit 1; }
echo "== build"
for m in hermes src/hermes2go src/calcHermesBatch src/cropfileconverter; do (cd "$WT/$m" && go build ./... ) || { echo "BUILD FAILED in $m"; exit 1; }; done
echo "== pinned suite with the change"
REPO_ROOT="$WT" /verif/scripts/baseline_off.sh | tail -1; rc_base=${PIPESTATUS[0]}
echo "== demo on the changed tree (must fail)"
( cd "$D/demo" && timeout 600 bash ./run.sh "$WT" ) >"$WT.mut.log" 2>&1; rc_mut=$?
echo "clean rc=$rc_clean  baseline rc=$rc_base  changed rc=$rc_mut"
tail -3 "$WT.clean.log" | sed 's/^/  clean: /'; tail -3 "$WT.mut.log" | sed 's/^/  changed: /'
rm -f "$WT.clean.log" "$WT.mut.log"
if [ $rc_clean -eq 0 ] && [ $rc_base -eq 0 ] && [ $rc_mut -ne 0 ]; then echo "CONFIRMED"; exit 0; fi
echo "NOT CONFIRMED"; exit 1
