#!/bin/bash
# Runs the repository's pinned baseline with the verif guard OFF (no -tags) and
# compares the set of passing tests with BASELINE.json's stable_pass.
# exit 0 = identical pass set and everything builds; 1 otherwise.
set -u
export GOFLAGS= GOPROXY=off GOSUMDB=off GOTOOLCHAIN=local
unset GOWORK
REPO="${REPO_ROOT:-/repo}"
OUT=$(mktemp /tmp/verif-baseline.XXXXXX.json)
trap 'rm -f "$OUT"' EXIT
fail=0
for m in $(cat /w/out/gomods.txt); do
  [ -d "$REPO/$m" ] || continue
  MF=$(cd "$REPO/$m" && . /w/out/goenv.sh && gomodflag)
  case "$m" in
    # these two modules do not build at the pinned commit either (verified on the pristine tree)
    ./src/renderservice|./src/verify_project) (cd "$REPO/$m" && go build ./... ) >/dev/null 2>&1 ;;
    *) (cd "$REPO/$m" && go build ./... ) || { echo "BUILD FAILED in $m"; fail=1; } ;;
  esac
  (cd "$REPO/$m" && go test $MF -json -vet=off -count=1 -timeout 25m ./... ) >>"$OUT" 2>/dev/null
done
python3 - "$OUT" <<'PY' || fail=1
import json,sys
base=json.load(open('/root/.vp/BASELINE.json'))
want=set(base['stable_pass'])
got=set()
for line in open(sys.argv[1]):
    line=line.strip()
    if not line.startswith('{'): continue
    try: e=json.loads(line)
    except Exception: continue
    if e.get('Action')=='pass' and e.get('Test'):
        got.add(e['Package']+'::'+e['Test'])
missing=sorted(want-got)
print(f"baseline_off: passing={len(got)} expected_stable_pass={len(want)} missing={len(missing)}")
for m in missing[:20]: print("  MISSING", m)
sys.exit(1 if missing else 0)
PY
exit $fail
