#!/bin/bash
# Runs checks against a seeded change: usage try_mutant.sh <patch.diff> <tier> <prop>...
set -u
P="$1"; T="$2"; shift 2
cd /verif
for prop in "$@"; do
  race=0; [ "$prop" = C03 ] && race=1
  out=$(VERIF_BUILD_RACE=$race VERIF_MINIMISE_S=${VERIF_MINIMISE_S:-20} scripts/with_tree.sh -p "$P" -- ./check "$prop" "$T" 2>&1)
  rc=$?
  echo "[$prop $T] exit=$rc  $(echo "$out" | grep -c '^VIOLATION') violation classes"
  echo "$out" | grep -A2 '^VIOLATION' | grep -v '^--' | cut -c1-260 | head -9
  echo "$out" | grep 'BUILD FAILED\|HARNESS\|SELFTEST' | head -3
done
