#!/bin/bash
# Ingests the round-2 seeded changes of one property from /tmp/mut${R}/<P>/out/mN:
# copies to seeded/<P>-r2mN, confirms (confirm_mutant.sh), writes meta.json; unconfirmed ones are removed again.
# usage: ingest_round.sh <round> <P>
set -u
R=$1; P=$2
cd /verif
for d in /tmp/mut${R}/$P/out/m*; do
  [ -f "$d/patch.diff" ] || continue
  n=$(basename $d); id=$P-r${R}$n; dst=seeded/$id
  rm -rf $dst; mkdir -p $dst; cp -r $d/patch.diff $d/NOTES.md $d/demo $dst/ 2>/dev/null
  chmod +x $dst/demo/*.sh 2>/dev/null
  log=$(scripts/confirm_mutant.sh $dst 2>&1); rc=$?
  echo "$id confirm rc=$rc: $(echo "$log" | tail -1)"
  if [ $rc -ne 0 ]; then echo "$log" | tail -15; mkdir -p /tmp/mut${R}/unconfirmed; rm -rf /tmp/mut${R}/unconfirmed/$id; mv $dst /tmp/mut${R}/unconfirmed/$id; echo "$log" > /tmp/mut${R}/unconfirmed/$id/confirm.log; continue; fi
  python3 - "$dst" "$id" "$P" "$log" "$R" <<'PY'
import json,sys
dst,id,P,log,R=sys.argv[1:6]
tail=[l for l in log.splitlines() if l.startswith('  clean:') or l.startswith('  changed:') or l=='CONFIRMED']
m={"id":id,"property":P,"round":int(R),
 "origin":"written by an independent sub-agent that saw only the property text, the one-line descriptions of the earlier changes for this property, and a scratch worktree; asked for changes that leave the shipped examples byte-identical and need something specific to manifest",
 "confirmed":"scripts/confirm_mutant.sh: patch applies to /repo HEAD, modules build, pinned suite passes (1610/1610), demo/run.sh exits 0 on the unchanged tree and non-zero on the changed tree",
 "needs_to_manifest":"see NOTES.md","confirm_log_tail":tail[-7:]}
json.dump(m,open(dst+'/meta.json','w'),indent=1)
PY
done
