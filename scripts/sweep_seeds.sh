#!/bin/bash
# False-alarm hunt on the unchanged tree: every check's quick tier under many seeds. usage: sweep_seeds.sh <from> <to> [props...]
# Prints one line per (property, seed); any exit != 0 is listed at the end.
set -u
cd "$(dirname "$0")/.."
from=$1; to=$2; shift 2
props=("$@"); [ ${#props[@]} -eq 0 ] && props=(C01 C02 C03 C04 C05 C06 C07 C08 C09 C10 C11 C13 C14 C15 C16 C17 C18 C19 C20)
export VERIF_OUT_ROOT=$(mktemp -d /tmp/vsweep.XXXXXX)
bad=0
for s in $(seq $from $to); do
  for p in "${props[@]}"; do
    out=$(VERIF_SEED=$s VERIF_MINIMISE_S=20 ./check $p quick 2>&1); rc=$?
    echo "$p seed=$s exit=$rc $(echo "$out" | grep -c '^VIOLATION') $(echo "$out" | tail -1 | grep -o 'scenarios=[0-9]* ok=[0-9]* invalid=[0-9]* crash=[0-9]*')"
    if [ $rc -ne 0 ]; then bad=$((bad+1)); echo "$out" | grep -A2 '^VIOLATION\|HARNESS\|SELFTEST' | cut -c1-300; mkdir -p /tmp/sweepfail; cp $VERIF_OUT_ROOT/replays/$p-*.json /tmp/sweepfail/ 2>/dev/null; fi
  done
done
echo "SWEEP DONE seeds $from..$to failures=$bad"
rm -rf "$VERIF_OUT_ROOT"
