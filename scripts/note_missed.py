#!/usr/bin/env python3
# usage: note_missed.py <seeded id> "<what had to be strengthened before the check caught it>"
import json,sys
p=f'/verif/seeded/{sys.argv[1]}/meta.json'; m=json.load(open(p)); m['initially_missed']=sys.argv[2]; json.dump(m,open(p,'w'),indent=1)
