#!/bin/bash
# Builds the simulator worker from /repo's CURRENT working tree (tag verif) with
# the files of /verif/sim overlaid into package main of src/hermes2go.
set -u
HERE="$(cd "$(dirname "$0")/.." && pwd)"
. "$HERE/scripts/env.sh"
B="${VERIF_BUILD_DIR:-$HERE/.build}"
mkdir -p "$B"
exec 9>"$B/lock"
flock 9
PKG="$REPO_ROOT/src/hermes2go"
OV="$B/overlay.json"
python3 - "$HERE/sim" "$PKG" > "$OV" <<'PY'
import json,os,sys
sim,pkg=sys.argv[1],sys.argv[2]
rep={}
for f in sorted(os.listdir(sim)):
    if f.endswith('.go'):
        rep[os.path.join(pkg,'zz_verif_'+f[:-3]+'_test.go')]=os.path.join(sim,f)
print(json.dumps({"Replace":rep}))
PY
cd "$PKG" || exit 2
if ! $GO126 test -c -tags verif -overlay "$OV" -o "$B/worker.new" . 2>"$B/build.err"; then
  cat "$B/build.err" >&2
  # the harness calls the unexported dispatcher in one place (sim/adapter_real.go); if only that call no longer fits the
  # tree, build without it: the partitioning check then decides through the shipped binary alone
  if grep -q "adapter_real.go" "$B/build.err" && ! grep -v "adapter_real.go" "$B/build.err" | grep -q "\.go:[0-9]"; then
    echo "build.sh: dispatcher signature differs from the one the harness calls; building with tag nodispatch" >&2
    $GO126 test -c -tags verif,nodispatch -overlay "$OV" -o "$B/worker.new" . || exit 2
    NODISPATCH=1
  else
    exit 2
  fi
fi
mv "$B/worker.new" "$B/worker"
(cd "$REPO_ROOT/src/calcHermesBatch" && go build -o "$B/calcbatch.new" . ) || exit 2
mv "$B/calcbatch.new" "$B/calcbatch"
# the shipped simulator binary itself (no tag): C17 runs a slice of its nodes through the real main()
(cd "$REPO_ROOT/src/hermes2go" && go build -o "$B/hermes2go.new" . ) || exit 2
mv "$B/hermes2go.new" "$B/hermes2go"
if [ "${VERIF_BUILD_RACE:-1}" = 1 ]; then
  TAGS=verif; [ -n "${NODISPATCH:-}" ] && TAGS=verif,nodispatch
  CGO_ENABLED=1 $GO126 test -c -race -tags $TAGS -overlay "$OV" -o "$B/worker-race.new" . || exit 2
  mv "$B/worker-race.new" "$B/worker-race"
fi
exit 0
