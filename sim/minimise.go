package main

// Minimisation: domain-aware delta debugging over a scenario. Each candidate is
// a real execution in a fresh process; a candidate is kept when the same
// violation class (oracle + class) persists.

import (
	"encoding/json"
	"time"
)

func cloneScenario(sc *Scenario) *Scenario {
	b, _ := json.Marshal(sc)
	var c Scenario
	json.Unmarshal(b, &c)
	return &c
}

func minimise(cd *CheckDef, sc *Scenario) *Scenario {
	if sc.Expect == nil {
		return sc
	}
	deadline := time.Now().Add(time.Duration(envInt("VERIF_MINIMISE_S", 90)) * time.Second)
	cur := cloneScenario(sc)
	still := func(c *Scenario) bool {
		if time.Now().After(deadline) {
			return false
		}
		r, _ := runOne(cd, c, minDur(oneTimeout(cd), 2*time.Minute))
		if v := hasClass(r, sc.Expect.Oracle, sc.Expect.Class); v != nil {
			c.Expect = v
			return true
		}
		return false
	}
	// confirm first: an unreproduced violation is a harness defect, not a finding
	if !still(cur) {
		cur.Params = map[string]string{"minimise": "violation did not reproduce in a fresh process"}
		return cur
	}
	for _, m := range minimiseMoves(cur) {
		progress := true
		for progress && time.Now().Before(deadline) {
			progress = false
			for _, cand := range m(cur) {
				if still(cand) {
					cur = cand
					progress = true
					break
				}
			}
		}
	}
	return cur
}

type move func(sc *Scenario) []*Scenario

func minimiseMoves(sc *Scenario) []move {
	switch sc.Kind {
	case "single":
		return singleMoves()
	case "batch":
		if sc.Prop == "C03" || sc.Prop == "C11" {
			return batchMoves()
		}
	}
	return nil
}

func singleMoves() []move {
	return []move{
		// shorten the period to just after the violating day
		func(sc *Scenario) []*Scenario {
			if sc.World == nil || sc.Expect == nil || sc.Expect.Day == "" {
				return nil
			}
			var out []*Scenario
			t, err := time.Parse("2006-01-02", sc.Expect.Day)
			if err != nil {
				return nil
			}
			vd := DayOf(t.Year(), int(t.Month()), t.Day())
			if vd+2 < sc.World.Cfg.End {
				c := cloneScenario(sc)
				c.World.Cfg.End = vd + 2
				fixAnnual(c.World)
				out = append(out, c)
			}
			return out
		},
		// buggify off, or only on the violating day
		func(sc *Scenario) []*Scenario {
			if sc.Bug == nil || sc.Bug.Off || (sc.Bug.Rate == 0 && len(sc.Bug.Days) <= 1) {
				return nil
			}
			var out []*Scenario
			c := cloneScenario(sc)
			c.Bug.Off = true
			out = append(out, c)
			if sc.Expect != nil && sc.Expect.Day != "" {
				if t, err := time.Parse("2006-01-02", sc.Expect.Day); err == nil {
					vd := DayOf(t.Year(), int(t.Month()), t.Day())
					if k := sc.Bug.K(int(vd)); k > 1 {
						c2 := cloneScenario(sc)
						c2.Bug.Rate = 0
						c2.Bug.Days = map[Day]int{vd: k}
						out = append(out, c2)
					}
				}
			}
			return out
		},
		// drop management
		func(sc *Scenario) []*Scenario {
			w := sc.World
			var out []*Scenario
			if len(w.Rot) > 1 {
				c := cloneScenario(sc)
				c.World.Rot = c.World.Rot[:1]
				out = append(out, c)
				if len(w.Rot) > 2 {
					c2 := cloneScenario(sc)
					c2.World.Rot = c2.World.Rot[:len(w.Rot)-1]
					out = append(out, c2)
				}
			}
			if len(w.Fert) > 0 {
				c := cloneScenario(sc)
				c.World.Fert = nil
				out = append(out, c)
			}
			if len(w.Irr) > 0 {
				c := cloneScenario(sc)
				c.World.Irr = nil
				out = append(out, c)
			}
			if len(w.Till) > 0 {
				c := cloneScenario(sc)
				c.World.Till = nil
				out = append(out, c)
			}
			return out
		},
		// drop weather events one by one, then flatten the weather
		func(sc *Scenario) []*Scenario {
			w := sc.World
			var out []*Scenario
			for i := range w.Weather.Events {
				c := cloneScenario(sc)
				c.World.Weather.Events = append(append([]WeatherEvent{}, w.Weather.Events[:i]...), w.Weather.Events[i+1:]...)
				out = append(out, c)
			}
			if !w.Weather.Flat {
				c := cloneScenario(sc)
				c.World.Weather.Flat = true
				out = append(out, c)
			}
			return out
		},
		// simplify the soil
		func(sc *Scenario) []*Scenario {
			w := sc.World
			var out []*Scenario
			if len(w.Soil.Horizons) > 1 {
				c := cloneScenario(sc)
				h := c.World.Soil.Horizons[0]
				h.Depth = w.Soil.N()
				c.World.Soil.Horizons = []Horizon{h}
				out = append(out, c)
			}
			if w.Decoys > 0 || w.CRLF {
				c := cloneScenario(sc)
				c.World.Decoys = 0
				c.World.CRLF = false
				out = append(out, c)
			}
			return out
		},
	}
}

// fixAnnual keeps the annual output date strictly before the end date's position in the end year.
func fixAnnual(w *World) {
	ey := w.Cfg.End.Year()
	if DayOf(ey, w.Cfg.AnnualM, w.Cfg.AnnualD) >= w.Cfg.End {
		y, m, d := (w.Cfg.End - 1).YMD()
		_ = y
		if (w.Cfg.End - 1).Year() == ey {
			w.Cfg.AnnualM, w.Cfg.AnnualD = m, d
		} else {
			w.Cfg.AnnualM, w.Cfg.AnnualD = 1, 1
		}
	}
}

func minDur(a, b time.Duration) time.Duration {
	if a < b {
		return a
	}
	return b
}


// batchMoves shrinks a batch scenario: fewer lines, fewer projects, lower concurrency, a simpler scheduling policy,
// coarser disk yields (fewer decisions), shorter simulated periods.
func batchMoves() []move {
	return []move{
		// drop lines (largest chunks first)
		func(sc *Scenario) []*Scenario {
			var out []*Scenario
			n := len(sc.Lines)
			if n <= 1 {
				return nil
			}
			for _, k := range []int{n / 2, n / 4, 1} {
				if k < 1 {
					continue
				}
				for from := 0; from+k <= n; from += k {
					if n-k < 1 {
						continue
					}
					c := cloneScenario(sc)
					c.Lines = append(append([]BatchLine{}, sc.Lines[:from]...), sc.Lines[from+k:]...)
					c.Sched.Decisions = nil
					out = append(out, c)
				}
				if len(out) > 24 {
					break
				}
			}
			return out
		},
		// lower concurrency, simplest policy, coarse disk yields
		func(sc *Scenario) []*Scenario {
			var out []*Scenario
			if sc.Sched.Concurrency > 2 {
				c := cloneScenario(sc)
				c.Sched.Concurrency = 2
				c.Sched.Decisions = nil
				out = append(out, c)
			}
			if sc.Sched.Policy != "fifo" {
				c := cloneScenario(sc)
				c.Sched.Policy = "fifo"
				c.Sched.Decisions = nil
				out = append(out, c)
			}
			if sc.Sched.RecordP > 1.0/300 {
				c := cloneScenario(sc)
				c.Sched.RecordP = 1.0 / 365
				c.Sched.Decisions = nil
				out = append(out, c)
			}
			if len(sc.Sched.Overlap) > 1 {
				c := cloneScenario(sc)
				c.Sched.Overlap = sc.Sched.Overlap[:1]
				out = append(out, c)
			}
			return out
		},
		// drop projects no line uses any more (indices are re-mapped)
		func(sc *Scenario) []*Scenario {
			used := map[int]bool{}
			for _, l := range sc.Lines {
				used[l.World] = true
			}
			if len(used) == len(sc.Worlds) {
				return nil
			}
			if _, ok := sc.Params["pless"]; ok {
				return nil
			}
			c := cloneScenario(sc)
			remap := map[int]int{}
			var ws []*World
			for i, w := range c.Worlds {
				if used[i] {
					remap[i] = len(ws)
					ws = append(ws, w)
				}
			}
			c.Worlds = ws
			for i := range c.Lines {
				c.Lines[i].World = remap[c.Lines[i].World]
			}
			return []*Scenario{c}
		},
		// bare soil and no management in every project
		func(sc *Scenario) []*Scenario {
			var out []*Scenario
			for i, w := range sc.Worlds {
				if len(w.Rot) > 1 && !w.BadEnt && len(w.CropAlias) == 0 {
					c := cloneScenario(sc)
					c.Worlds[i].Rot = c.Worlds[i].Rot[:1]
					c.Worlds[i].Fert, c.Worlds[i].Irr, c.Worlds[i].Till = nil, nil, nil
					out = append(out, c)
				}
			}
			return out
		},
	}
}
