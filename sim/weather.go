package main

// Weather world: a deterministic map date -> record derived from a WeatherSpec.
// The values are rounded to the precision they are written with, so that the
// map *is* the content of the files and can serve as the reference model.

import (
	"fmt"
	"math"
	"path/filepath"
	"strings"
)

type WeatherWorld struct {
	Spec  *WeatherSpec
	First Day
	Recs  []WRec // index = day - First
	None  float64
}

func (ww *WeatherWorld) At(d Day) (WRec, bool) {
	i := int(d - ww.First)
	if i < 0 || i >= len(ww.Recs) {
		return WRec{}, false
	}
	return ww.Recs[i], true
}

func dayLengthApprox(lat float64, doy int) float64 {
	dec := -23.45 * math.Cos(2*math.Pi*float64(doy+10)/365) * math.Pi / 180
	x := -math.Tan(lat*math.Pi/180) * math.Tan(dec)
	if x >= 1 {
		return 0
	}
	if x <= -1 {
		return 24
	}
	return 24 * math.Acos(x) / math.Pi
}

// BuildWeather generates the series. grid=true puts temperatures on a 0.25 K
// grid so that (tmin+tmax)/2 is exact in every encoding (used by C13).
func BuildWeather(ws *WeatherSpec, none float64, grid bool) *WeatherWorld {
	r := NewRNG(ws.Sub)
	n := int(ws.LastDay-ws.FirstDay) + 1
	ww := &WeatherWorld{Spec: ws, First: ws.FirstDay, Recs: make([]WRec, n), None: none}
	ar := 0.0
	wet := false
	for i := 0; i < n; i++ {
		d := ws.FirstDay + Day(i)
		doy := d.YearDay()
		phase := 2 * math.Pi * float64(doy-200) / 365
		if ws.Lat < 0 {
			phase += math.Pi
		}
		var rec WRec
		season := math.Cos(phase)
		if ws.Flat {
			rec.Tavg = ws.TMean
			rec.Tmin = ws.TMean - 4
			rec.Tmax = ws.TMean + 4
			rec.Rain = 1
			rec.RH = 75
			rec.Wind = 2.5
			rec.Rad = 10
			rec.Sun = 5
			rec.Verd = 4
			rec.ET0 = 2
			r.U64()
		} else {
			ar = 0.7*ar + 0.7*r.Norm()
			t := ws.TMean + ws.TAmp*season + 3*ar
			span := 2 + 10*r.F()
			rec.Tmin = t - span/2
			rec.Tmax = t + span/2
			rec.Tavg = t
			pw := ws.RainP
			if wet {
				pw = 0.6
			}
			wet = r.Bool(pw)
			if wet {
				x := -math.Log(1-r.F()*0.999) * ws.RainMean
				if r.Bool(0.02) {
					x *= 5
				}
				rec.Rain = x
			}
			dl := dayLengthApprox(ws.Lat, doy)
			cloud := r.F()
			if wet {
				cloud = 0.5 + 0.5*r.F()
			}
			radMax := 3 + 27*math.Max(0, 0.5+0.5*season*math.Min(1, math.Abs(ws.Lat)/40+0.2))
			rec.Rad = math.Max(0.1, radMax*(1-0.75*cloud))
			rec.Sun = math.Max(0, dl*(1-cloud))
			rec.RH = math.Min(100, math.Max(25, 60+35*cloud+5*r.Norm()))
			rec.Wind = math.Max(0, 3+2*r.Norm())
			rec.Verd = math.Max(0, (rec.Tmax+5)*(1-rec.RH/100)*0.9)
			rec.ET0 = math.Max(0, 0.2+0.15*rec.Rad*(1+0.02*t))
		}
		ww.Recs[i] = rec
	}
	// events
	for _, ev := range ws.Events {
		ln := ev.Len
		if ln < 1 {
			ln = 1
		}
		for k := 0; k < ln; k++ {
			i := int(ev.Day-ws.FirstDay) + k
			if i < 0 || i >= n {
				continue
			}
			rec := &ww.Recs[i]
			switch ev.Kind {
			case "rain":
				rec.Rain = ev.Val
			case "drought":
				rec.Rain = 0
				rec.RH = 30
			case "frost":
				rec.Tmin, rec.Tavg, rec.Tmax = ev.Val-4, ev.Val, ev.Val+4
			case "heat":
				rec.Tmin, rec.Tavg, rec.Tmax = ev.Val-6, ev.Val, ev.Val+6
			case "calm":
				rec.Wind = ev.Val
			case "tflip":
				rec.Tmin, rec.Tmax = rec.Tmax+1, rec.Tmin
			}
		}
	}
	// rounding to file precision and optional-column handling
	for i := range ww.Recs {
		rec := &ww.Recs[i]
		if grid {
			rec.Tmin = math.Round(rec.Tmin*4) / 4
			rec.Tmax = math.Round(rec.Tmax*4) / 4
			if rec.Tmax < rec.Tmin {
				rec.Tmax = rec.Tmin
			}
			rec.Tavg = (rec.Tmin + rec.Tmax) / 2
		} else {
			rec.Tmin = round(rec.Tmin, 1)
			rec.Tmax = round(rec.Tmax, 1)
			rec.Tavg = round(rec.Tavg, 1)
			if rec.Tavg < rec.Tmin {
				rec.Tavg = rec.Tmin
			}
			if rec.Tavg > rec.Tmax {
				rec.Tavg = rec.Tmax
			}
		}
		rec.Rain = round(rec.Rain, 1)
		rec.Rad = round(rec.Rad, 2)
		rec.Sun = round(rec.Sun, 1)
		rec.RH = round(rec.RH, 1)
		rec.Wind = round(rec.Wind, 1)
		if ws.Events != nil {
			// calm events keep two decimals
			rec.Wind = round(rec.Wind, 2)
		}
		rec.Verd = round(rec.Verd, 1)
		rec.ET0 = round(rec.ET0, 1)
		if !ws.HasRad {
			rec.Rad = none
		}
		if !ws.HasSun {
			rec.Sun = none
		}
		if !ws.HasVerd {
			rec.Verd = none
		}
	}
	// sentinel events are applied after rounding (they replace a present value by the none value)
	for _, ev := range ws.Events {
		i := int(ev.Day - ws.FirstDay)
		if i < 0 || i >= n {
			continue
		}
		switch ev.Kind {
		case "sentinel_sun":
			ww.Recs[i].Sun = none
		case "sentinel_verd":
			ww.Recs[i].Verd = none
		case "sentinel_tavg":
			ww.Recs[i].Tavg = none
		}
	}
	return ww
}

func fnum(x float64) string {
	s := fmt.Sprintf("%.3f", x)
	s = strings.TrimRight(s, "0")
	s = strings.TrimRight(s, ".")
	if s == "" || s == "-" {
		return "0"
	}
	return s
}

func yearExt(year int) string {
	j := year - 1900
	s := fmt.Sprint(j)
	if j >= 100 {
		return "0" + s[1:3]
	}
	return "9" + s
}

// WeatherFiles renders the series in one of the three layouts.
// Returned map: relative file name (inside the weather folder) -> content.
// lo/hi restrict the rendered days (faults: series starting late / ending early);
// skip lists days to leave out (gap faults).
func (ww *WeatherWorld) Files(layout int, numHeader int, fcode string, eol string, lo, hi Day, skip map[Day]bool, sep string) map[string]string {
	out := map[string]string{}
	ws := ww.Spec
	if sep == "" {
		sep = ";"
	}
	hdr3 := fmt.Sprintf("%s%s%s%s-----", fnum(ws.StationAlt), sep, fnum(ws.WindHeight), sep)
	switch layout {
	case 0:
		var cur *strings.Builder
		curYear := 0
		flush := func() {
			if cur != nil {
				out["MET_"+fcode+"."+yearExt(curYear)] = cur.String()
			}
		}
		for d := lo; d <= hi; d++ {
			if skip[d] {
				continue
			}
			rec, ok := ww.At(d)
			if !ok {
				continue
			}
			if d.Year() != curYear {
				flush()
				curYear = d.Year()
				cur = &strings.Builder{}
				cur.WriteString("tavg;tmin;tmax;ET0;relhumid;vapp14;wind;sundu;globrad;precip;jday" + eol)
				if numHeader >= 2 {
					cur.WriteString("C_deg;C_deg;C_deg;mm;%;mm_Hg;m/s;hours;MJ m-2;mm;" + eol)
				}
				if numHeader == 3 {
					cur.WriteString(hdr3 + eol)
				}
			}
			f := []string{fnum(rec.Tavg), fnum(rec.Tmin), fnum(rec.Tmax), fnum(rec.ET0), fnum(rec.RH), fnum(rec.Verd), fnum(rec.Wind), fnum(rec.Sun), fnum(rec.Rad), fnum(rec.Rain), fmt.Sprint(d.YearDay())}
			cur.WriteString(strings.Join(f, sep) + eol)
		}
		flush()
	case 1:
		var b strings.Builder
		cols := []string{"iso-date", "tmin", "tavg", "tmax", "precip"}
		if ws.HasRad {
			cols = append(cols, "globrad")
		}
		cols = append(cols, "wind", "relhumid")
		if ws.HasSun {
			cols = append(cols, "sunhours")
		}
		if ws.HasVerd {
			cols = append(cols, "verd")
		}
		b.WriteString(strings.Join(cols, ",") + eol)
		if numHeader >= 2 {
			b.WriteString("-,C,C,C,mm,MJ m-2,m s-1,%" + eol)
		}
		if numHeader == 3 {
			b.WriteString(strings.ReplaceAll(hdr3, sep, ",") + eol)
		}
		for d := lo; d <= hi; d++ {
			if skip[d] {
				continue
			}
			rec, ok := ww.At(d)
			if !ok {
				continue
			}
			f := []string{d.ISO(), fnum(rec.Tmin), fnum(rec.Tavg), fnum(rec.Tmax), fnum(rec.Rain)}
			if ws.HasRad {
				f = append(f, fnum(rec.Rad))
			}
			f = append(f, fnum(rec.Wind), fnum(rec.RH))
			if ws.HasSun {
				f = append(f, fnum(rec.Sun))
			}
			if ws.HasVerd {
				f = append(f, fnum(rec.Verd))
			}
			b.WriteString(strings.Join(f, ",") + eol)
		}
		out[fcode+".csv"] = b.String()
	case 2:
		var b strings.Builder
		cols := []string{"@YYYYJJJ", "TMIN", "TMAX"}
		if ws.HasRad {
			cols = append(cols, "RAD")
		}
		cols = append(cols, "PREC", "WIND", "RH")
		if ws.HasSun {
			cols = append(cols, "SUNH")
		}
		if ws.HasVerd {
			cols = append(cols, "VERD")
		}
		b.WriteString(strings.Join(cols, "  ") + eol)
		if numHeader >= 2 {
			b.WriteString("-  C  C  MJ  mm  m/s  %" + eol)
		}
		for d := lo; d <= hi; d++ {
			if skip[d] {
				continue
			}
			rec, ok := ww.At(d)
			if !ok {
				continue
			}
			f := []string{fmt.Sprintf("%04d%03d", d.Year(), d.YearDay()), fnum(rec.Tmin), fnum(rec.Tmax)}
			if ws.HasRad {
				f = append(f, fnum(rec.Rad))
			}
			f = append(f, fnum(rec.Rain), fnum(rec.Wind), fnum(rec.RH))
			if ws.HasSun {
				f = append(f, fnum(rec.Sun))
			}
			if ws.HasVerd {
				f = append(f, fnum(rec.Verd))
			}
			b.WriteString(" " + strings.Join(f, "   ") + eol)
		}
		out[fcode+".w6d"] = b.String()
	}
	return out
}

func weatherFileTemplate(layout int) string {
	switch layout {
	case 0:
		return "MET_%s."
	case 1:
		return "%s.csv"
	default:
		return "%s.w6d"
	}
}

var _ = filepath.Join
