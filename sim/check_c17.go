package main

// C17 — cluster partitioning executes every batch line exactly once.
// The real batch calculator (child process, built from the tree) prints the
// ranges; K simulated nodes, each a fresh session running the real dispatcher
// with the start/end indices main() derives from "-lines a-b", execute them
// under the seeded scheduler; executed log ids are read from the dispatcher's
// own output.

import (
	"bufio"
	"fmt"
	"os"
	"os/exec"
	"path/filepath"
	"regexp"
	"sort"
	"strconv"
	"strings"
	"syscall"
	"time"
)

// c17Align places the line feed that ends one line at a chosen file offset (a multiple of a common buffer size,
// or one byte before / behind it): readers that work through the file in chunks meet a line end on a chunk edge.
type c17Align struct {
	line  int // 0-based index of the padded line
	chunk int // 4096, 32768, 65536
	delta int // -1, 0, +1
}

func c17BatchFile(r *RNG, L int, crlf bool, blanks float64, trailingNL bool, pad int, al *c17Align, mixed bool, longLine, longLen int, wit *World) (content string, nonEmpty []string) {
	eol := "\n"
	if crlf {
		eol = "\r\n"
	}
	pickEOL := func() {
		if mixed {
			// a file written on one system and extended on another: every line end is LF or CRLF on its own
			eol = r.PickS([]string{"\n", "\r\n"})
		}
	}
	var b strings.Builder
	for i := 0; i < L; i++ {
		for r.Bool(blanks) {
			pickEOL()
			b.WriteString(eol) // blank line
		}
		pickEOL()
		// a line that fails fast with a reported run error (no project argument): cheap and attributable
		line := fmt.Sprintf("plotNr=%d tag=line%d", 100+i, i+1)
		if wit != nil {
			// witness line: runs into a materialised project and fails with an error that names the soil id given on
			// THIS line, so the error summary tells which line's content was executed (not only which index)
			line = fmt.Sprintf("project=%s plotNr=%s fcode=%s soilId=q%d tag=line%d", wit.Loc, wit.Plot, wit.FCode, i+1, i+1)
		}
		if r.Bool(0.3) {
			line += " poligonID=x" + fmt.Sprint(r.Intn(99))
		}
		if pad > 0 {
			line += " note=" + strings.Repeat("n", r.Intn(pad))
		}
		if longLen > 0 && longLine == i {
			// one very long line (many overrides, long paths): longer than the 4 KiB buffers readers start with
			line += " remark=" + strings.Repeat("r", longLen-len(line)-8)
		}
		if blanks > 0 && r.Bool(0.12) && !(al != nil && al.line == i) && !(longLen > 0 && longLine == i) {
			line = r.PickS([]string{" ", "   ", "\t", " \t "}) // not empty: a line of white space is a batch line (it fails with a reported error)
		}
		if al != nil && al.line == i && (i < L-1 || trailingNL) {
			// offset of this line's '\n' without padding
			at := b.Len() + len(line) + len(eol) - 1
			need := 3
			target := ((at+need)/al.chunk+1)*al.chunk + al.delta
			for target-at < need {
				target += al.chunk
			}
			line += " z=" + strings.Repeat("p", target-at-3)
		}
		nonEmpty = append(nonEmpty, line)
		b.WriteString(line)
		if i < L-1 || trailingNL {
			b.WriteString(eol)
		}
	}
	for trailingNL && r.Bool(blanks) {
		pickEOL()
		b.WriteString(eol)
	}
	return b.String(), nonEmpty
}

// readLikeMain reads the batch file the way hermes2go's main() does.
func readLikeMain(path string) []string {
	f, err := os.Open(path)
	if err != nil {
		return nil
	}
	defer f.Close()
	var lines []string
	sc := bufio.NewScanner(f)
	for sc.Scan() {
		if l := sc.Text(); len(l) > 0 {
			lines = append(lines, l)
		}
	}
	return lines
}

func runCalc(args ...string) (string, error) {
	bin := os.Getenv("VERIF_CALCBATCH")
	if bin == "" {
		bin = filepath.Join(verifRoot(), ".build", "calcbatch")
	}
	cmd := exec.Command(bin, args...)
	return runChild(cmd, 2*time.Minute, nil)
}

func execC17(sc *Scenario, env *Env) *Result {
	t0 := time.Now()
	res := &Result{Idx: sc.Idx, Status: "ok"}
	L, _ := strconv.Atoi(sc.Params["L"])
	K, _ := strconv.Atoi(sc.Params["K"])
	var seed uint64
	fmt.Sscan(sc.Params["fileseed"], &seed)
	r := NewRNG(seed)
	blanks := 0.0
	if sc.Params["blanks"] == "1" {
		blanks = 0.25
	}
	var al *c17Align
	if sc.Params["alignchunk"] != "" {
		al = &c17Align{}
		fmt.Sscan(sc.Params["alignline"], &al.line)
		fmt.Sscan(sc.Params["alignchunk"], &al.chunk)
		fmt.Sscan(sc.Params["aligndelta"], &al.delta)
		res.add("reach.line-end-on-buffer-edge", 1)
	}
	pad, _ := strconv.Atoi(sc.Params["pad"])
	longLine, longLen := 0, 0
	if sc.Params["longlen"] != "" {
		fmt.Sscan(sc.Params["longline"], &longLine)
		fmt.Sscan(sc.Params["longlen"], &longLen)
		res.add("reach.line-longer-than-4k", 1)
	}
	if sc.Params["mixed"] == "1" {
		res.add("reach.mixed-line-endings", 1)
	}
	var wit *World
	if len(sc.Worlds) > 0 {
		wit = sc.Worlds[0]
		res.add("reach.witness-lines", 1)
	}
	content, lines := c17BatchFile(r, L, sc.Params["crlf"] == "1", blanks, sc.Params["nl"] != "0", pad, al, sc.Params["mixed"] == "1", longLine, longLen, wit)
	if len(content) > 32768 {
		res.add("reach.batch-file-above-32k", 1)
	}
	root := env.NewRoot()
	if wit != nil {
		if err := WriteFiles(root, wit.Files(nil, BuildWeather(&wit.Weather, wit.Cfg.NoneValue, sc.Grid)), env.ParamDir); err != nil {
			res.Status, res.Note = "invalid", err.Error()
			return res
		}
	}
	// which line contents were executed (witness lines only): soil id number -> count, per execution path
	witRe := regexp.MustCompile(`'q(\d+)' not found`)
	witSeen := map[string]map[int]int{"": {}, ":real-binary": {}}
	noteWitness := func(path string, errorLines []string) {
		for _, l := range errorLines {
			if m := witRe.FindStringSubmatch(l); m != nil {
				n, _ := strconv.Atoi(m[1])
				witSeen[path][n]++
			}
		}
	}
	bf := filepath.Join(root, "batch.txt")
	if sc.Params["hist"] == "1" {
		// history of invocations: the calculator has been run before on another batch file of the same name (other number
		// of lines); the present file is then moved into place carrying an older modification time, as mv / cp -p / rsync -t
		// do. Whatever the earlier invocations left behind (beside the file or anywhere else) must not reach this one.
		L2 := 1 + (L+int(seed%7)+2)%(2*L+3)
		if L2 == L {
			L2++
		}
		decoy, _ := c17BatchFile(NewRNG(seed^0x5a5a), L2, sc.Params["crlf"] == "1", 0, true, 0, nil, false, 0, 0, nil)
		os.WriteFile(bf, []byte(decoy), 0o644)
		runCalc("-size", fmt.Sprint(K), "-batch", bf)
		runCalc("-list", fmt.Sprint(K), "-batch", bf)
		tmp := bf + ".incoming"
		os.WriteFile(tmp, []byte(content), 0o644)
		old := time.Now().Add(-48 * time.Hour)
		os.Chtimes(tmp, old, old)
		os.Rename(tmp, bf)
		res.add("fault.calculator-ran-before-on-another-file-of-this-name", 1)
	} else {
		os.WriteFile(bf, []byte(content), 0o644)
	}
	viol := func(oracle, class, detail string) {
		for _, v := range res.Violations {
			if v.Class == class {
				return
			}
		}
		res.Violations = append(res.Violations, Violation{Prop: "C17", Oracle: oracle, Class: class, Detail: fmt.Sprintf("%d lines, %d nodes (crlf=%s blank-lines=%s): %s", L, K, sc.Params["crlf"], sc.Params["blanks"], detail)})
	}
	asMain := readLikeMain(bf)
	if len(asMain) != L {
		res.Status, res.Note = "invalid", "generator: the simulator would read another number of lines"
		return res
	}
	calcBatch := bf
	var feed func() func()
	if sc.Params["fifo"] == "1" {
		// the calculator reads the batch file through a named pipe whose writer delivers it in two pieces with a pause in
		// between (a file that arrives over a pipe, a slow network file system): a read may return less than was asked for
		// although more follows
		calcBatch = filepath.Join(root, "batch.fifo")
		syscall.Mkfifo(calcBatch, 0o600)
		cut := len(content) / 2
		if len(content) > 40000 {
			cut = 33000 // just past the first 32 KiB chunk
		}
		feed = func() func() {
			done := make(chan struct{})
			go func() {
				defer close(done)
				f, err := os.OpenFile(calcBatch, os.O_WRONLY, 0)
				if err != nil {
					return
				}
				f.Write([]byte(content[:cut]))
				time.Sleep(60 * time.Millisecond)
				f.Write([]byte(content[cut:]))
				f.Close()
			}()
			return func() {
				select {
				case <-done:
				case <-time.After(5 * time.Second):
					// nobody opened the pipe for reading: open it ourselves so that the writer gets unstuck
					if r, err := os.OpenFile(calcBatch, os.O_RDONLY|syscall.O_NONBLOCK, 0); err == nil {
						r.Close()
					}
					<-done
				}
			}
		}
		res.add("fault.batch-file-delivered-through-a-pipe-in-pieces", 1)
	}
	runFed := func(args ...string) (string, error) {
		if feed == nil {
			return runCalc(args...)
		}
		wait := feed()
		out, err := runCalc(args...)
		wait()
		return out, err
	}
	sizeOut, err1 := runFed("-size", fmt.Sprint(K), "-batch", calcBatch)
	listOut, err2 := runFed("-list", fmt.Sprint(K), "-batch", calcBatch)
	if err1 != nil || err2 != nil {
		viol("calculator", "calculator-failed", fmt.Sprintf("calculator exited with an error: %v %v %s %s", err1, err2, sizeOut, listOut))
		res.Status = "violation"
		return res
	}
	size, err := strconv.Atoi(strings.TrimSpace(sizeOut))
	if err != nil {
		viol("calculator", "size-not-a-number", fmt.Sprintf("-size printed %q", sizeOut))
	}
	type rng struct{ a, b int }
	var ranges []rng
	for _, tok := range strings.Fields(listOut) {
		p := strings.Split(tok, "-")
		if len(p) != 2 {
			viol("calculator", "range-unparsable", fmt.Sprintf("-list printed %q", listOut))
			break
		}
		a, e1 := strconv.Atoi(p[0])
		b, e2 := strconv.Atoi(p[1])
		if e1 != nil || e2 != nil {
			viol("calculator", "range-unparsable", fmt.Sprintf("-list printed %q", listOut))
			break
		}
		ranges = append(ranges, rng{a, b})
	}
	// arithmetic of the partition
	if len(ranges) != size {
		viol("partition", "number-of-ranges-differs-from-array-size", fmt.Sprintf("-size says %d, -list printed %d ranges: %q", size, len(ranges), listOut))
	}
	next := 1
	for i, g := range ranges {
		if g.a != next || g.b < g.a {
			viol("partition", "ranges-not-contiguous", fmt.Sprintf("range %d is %d-%d, expected to start at %d: %q", i+1, g.a, g.b, next, listOut))
			break
		}
		next = g.b + 1
	}
	if len(ranges) > 0 && next-1 != L {
		viol("partition", "ranges-do-not-end-at-last-line", fmt.Sprintf("ranges %q end at line %d, the batch file has %d non-empty lines", listOut, next-1, L))
	}
	// K simulated nodes: each a fresh session with the real dispatcher
	executed := map[string]int{}
	for ni, g := range ranges {
		if g.a < 1 || g.b < g.a || g.a > L+50 {
			continue
		}
		if !dispatcherAvailable {
			res.add("nodes.in-bubble-skipped-no-dispatcher-access", 1)
			continue
		}
		sp := &SchedSpec{Sub: r.U64() + uint64(ni), Policy: r.PickS([]string{"random", "fifo", "lifo"}), RecordP: 1, Concurrency: r.Range(1, 8)}
		disk := NewSimDisk()
		// main(): startLine = a-1, endLine = b
		writeLog := r.Bool(0.5)
		out := env.RunBatch(root, asMain, sp, disk, writeLog, g.a-1, g.b, 0)
		if !writeLog {
			res.add("nodes.without-logoutput", 1)
		}
		res.add("nodes.run", 1)
		res.add("decisions", float64(len(out.Decisions)))
		if out.Panic != "" || out.Deadlock != "" {
			viol("node", "node-did-not-complete", firstLine(out.Panic+out.Deadlock))
			continue
		}
		// executed = the runs that reached the first line of Run (seen by the scheduler), whatever the node printed
		for _, id := range out.TaskIDs {
			executed[id]++
		}
		noteWitness("", parseDispatcher(out.Stdout).ErrorLines)
	}
	// the same ranges through the shipped binary (real main(): flag parsing, batch-file reading), unscheduled
	realOK := false
	if bin := os.Getenv("VERIF_HERMES2GO"); bin != "" && len(ranges) <= 64 {
		executedReal := map[string]int{}
		ok := true
		for _, g := range ranges {
			if g.a < 1 || g.b < g.a {
				continue
			}
			// option order and -logoutput vary: main() handles its flags one by one, in the order given
			opts := [][]string{{"-module", "batch"}, {"-concurrent", fmt.Sprint(r.Range(1, 4))}, {"-workingdir", root}, {"-batch", bf}, {"-lines", fmt.Sprintf("%d-%d", g.a, g.b)}}
			withLog := r.Bool(0.5)
			if withLog {
				opts = append(opts, []string{"-logoutput"})
			}
			for i := len(opts) - 1; i > 0; i-- {
				j := r.Intn(i + 1)
				opts[i], opts[j] = opts[j], opts[i]
			}
			var argv []string
			for _, o := range opts {
				argv = append(argv, o...)
			}
			cmd := exec.Command(bin, argv...)
			var onStarted func(c *exec.Cmd) bool
			switch {
			case sc.Params["nodefault"] == "kill" && withLog:
				// the job is killed while its first runs are under way (scancel, node failure) and the same range is started
				// again: the second invocation must execute its whole range; only its output is judged
				onStarted = func(c *exec.Cmd) bool { c.Process.Kill(); return true }
			case sc.Params["nodefault"] == "rewrite" && withLog && wit != nil:
				// the batch file is rewritten in place (same inode, same length) while the job is under way, every line now
				// naming another soil id: the job executes the lines it was started with
				onStarted = func(c *exec.Cmd) bool {
					if f, err := os.OpenFile(bf, os.O_WRONLY, 0); err == nil {
						f.Write([]byte(strings.ReplaceAll(content, "soilId=q", "soilId=r")))
						f.Close()
					}
					return false
				}
			}
			if onStarted != nil && sc.Params["nodefault"] == "kill" {
				if _, kerr := runChild(cmd, 40*time.Second, onStarted); kerr == errChildTimeout {
					viol("real-binary", "node-did-not-terminate:real-binary", "killed job did not end")
				}
				res.add("fault.node-killed-and-range-started-again", 1)
				cmd = exec.Command(bin, argv...)
				onStarted = nil
			}
			outS, err := runChild(cmd, 40*time.Second, onStarted)
			if sc.Params["nodefault"] == "rewrite" && onStarted != nil {
				os.WriteFile(bf, []byte(content), 0o644) // the next job gets the original file
				res.add("fault.batch-file-rewritten-in-place-during-the-job", 1)
			}
			out := []byte(outS)
			if err == errChildTimeout {
				viol("real-binary", "node-did-not-terminate:real-binary", fmt.Sprintf("hermes2go %s was still running after 40 s (its lines fail within milliseconds)", strings.Join(argv, " ")))
				ok = false
				break
			}
			if err != nil {
				viol("real-binary", "simulator-binary-failed", fmt.Sprintf("hermes2go %s exited with %v: %s", strings.Join(argv, " "), err, firstLine(lastNonEmpty(string(out)))))
				ok = false
				break
			}
			rep := parseDispatcher(string(out))
			noteWitness(":real-binary", rep.ErrorLines)
			if withLog {
				for _, id := range rep.Started {
					executedReal[id]++
				}
			} else {
				// every line of these batch files fails with a reported run error, so the error summary names each executed line
				for _, l := range rep.ErrorLines {
					id := l
					if k := strings.IndexByte(l, ' '); k > 0 {
						id = l[:k]
					}
					executedReal[id]++
				}
				res.add("nodes.real-binary-without-logoutput", 1)
			}
			res.add("nodes.real-binary", 1)
		}
		realOK = ok
		if ok {
			var miss, mult []string
			for i := 0; i < L; i++ {
				switch n := executedReal[fmt.Sprintf("[%d]", i)]; {
				case n == 0:
					miss = append(miss, fmt.Sprint(i+1))
				case n > 1:
					mult = append(mult, fmt.Sprint(i+1))
				}
			}
			if len(miss) > 0 {
				viol("exactly-once", "lines-never-executed:real-binary", fmt.Sprintf("ranges %q handed to the simulator binary with -lines: batch lines %s were executed by no job", listOut, strings.Join(miss, ",")))
			}
			if len(mult) > 0 {
				viol("exactly-once", "lines-executed-more-than-once:real-binary", fmt.Sprintf("ranges %q handed to the simulator binary with -lines: batch lines %s were executed by more than one job", listOut, strings.Join(mult, ",")))
			}
		}
	}
	if wit != nil {
		for _, path := range []string{"", ":real-binary"} {
			if (path == ":real-binary" && !realOK) || (path == "" && !dispatcherAvailable) {
				continue
			}
			var never, more []string
			for i, l := range lines {
				if !strings.Contains(l, "soilId=q") {
					continue // a white-space line: identified by its index only
				}
				switch n := witSeen[path][i+1]; {
				case n == 0:
					never = append(never, fmt.Sprint(i+1))
				case n > 1:
					more = append(more, fmt.Sprint(i+1))
				}
			}
			if len(never) > 0 {
				viol("exactly-once", "line-content-never-executed"+path, fmt.Sprintf("ranges %q: no job reported the error of batch lines %s (every line fails with an error naming its own soil id)", listOut, strings.Join(never, ",")))
			}
			if len(more) > 0 {
				viol("exactly-once", "line-content-executed-more-than-once"+path, fmt.Sprintf("ranges %q: the error of batch lines %s was reported by more than one run", listOut, strings.Join(more, ",")))
			}
		}
	}
	if !dispatcherAvailable {
		// only the shipped binary could be asked (the harness does not link against the dispatcher of this tree)
		if !realOK && len(res.Violations) == 0 {
			res.Status, res.Note = "crash", "no dispatcher access and no real-binary verdict"
		}
		if len(res.Violations) > 0 {
			res.Status = "violation"
		}
		res.Hash = fmt.Sprintf("L%d-K%d-%s%s%s", L, K, sc.Params["crlf"], sc.Params["blanks"], sc.Params["nl"])
		res.WallMS = nowMS(t0)
		return res
	}
	var missing, multiple []string
	for i := 0; i < L; i++ {
		id := fmt.Sprintf("[%d]", i)
		switch n := executed[id]; {
		case n == 0:
			missing = append(missing, fmt.Sprint(i+1))
		case n > 1:
			multiple = append(multiple, fmt.Sprint(i+1))
		}
		delete(executed, id)
	}
	if len(missing) > 0 {
		viol("exactly-once", "lines-never-executed", fmt.Sprintf("ranges %q: batch lines %s were executed by no node", listOut, strings.Join(missing, ",")))
	}
	if len(multiple) > 0 {
		viol("exactly-once", "lines-executed-more-than-once", fmt.Sprintf("ranges %q: batch lines %s were executed by more than one node", listOut, strings.Join(multiple, ",")))
	}
	if len(executed) > 0 {
		var ex []string
		for id := range executed {
			ex = append(ex, id)
		}
		sort.Strings(ex)
		viol("exactly-once", "unknown-lines-executed", "log ids outside the batch file: "+strings.Join(ex, " "))
	}
	if K > L {
		res.add("reach.more-nodes-than-lines", 1)
	}
	if L%max(K, 1) != 0 {
		res.add("reach.remainder", 1)
	}
	res.Hash = fmt.Sprintf("L%d-K%d-%s%s%s", L, K, sc.Params["crlf"], sc.Params["blanks"], sc.Params["nl"])
	if len(res.Violations) > 0 {
		res.Status = "violation"
	}
	res.WallMS = nowMS(t0)
	return res
}

func init() {
	register(&CheckDef{
		Prop: "C17", Level: "exploration",
		Gen: func(r *RNG, idx int, tier string) *Scenario {
			// exhaustive over (L, K) up to the tier's bound, then random larger ones; file style rotates
			bound := 12
			if tier == "thorough" {
				bound = 40
			}
			sc := &Scenario{Kind: "cluster", Params: map[string]string{}}
			var L, K int
			if idx < bound*bound {
				L, K = idx/bound+1, idx%bound+1
			} else {
				L, K = r.Range(1, 400), r.Range(1, 64)
				if r.Bool(0.3) {
					L = r.Range(1, 2000)
				}
			}
			sc.Params["L"], sc.Params["K"] = fmt.Sprint(L), fmt.Sprint(K)
			sc.Params["crlf"] = fmt.Sprint(r.Intn(2))
			sc.Params["blanks"] = fmt.Sprint(boolInt(r.Bool(0.4)))
			sc.Params["nl"] = fmt.Sprint(boolInt(r.Bool(0.8)))
			sc.Params["fileseed"] = fmt.Sprint(r.U64())
			if r.Bool(0.3) {
				sc.Params["pad"] = fmt.Sprint(r.PickI([]int{20, 120, 400}))
			}
			if r.Bool(0.25) {
				sc.Params["mixed"] = "1"
			}
			if L <= 300 && r.Bool(0.4) {
				// witness stratum: every line runs into one small materialised project and fails with an error naming its own soil id
				p := batchProfile()
				p.MinYears, p.MaxYears = 1, 1
				sc.Worlds = []*World{GenWorld(r.Sub("witness", 0), p, paramTables)}
			}
			if r.Bool(0.2) {
				sc.Params["longline"] = fmt.Sprint(r.Intn(L))
				sc.Params["longlen"] = fmt.Sprint(r.PickI([]int{4090, 4097, 5000, 8193, 20000, 60000}))
			}
			if r.Bool(0.25) {
				sc.Params["hist"] = "1"
			}
			if r.Bool(0.2) {
				sc.Params["fifo"] = "1"
			}
			if r.Bool(0.3) {
				sc.Params["nodefault"] = r.PickS([]string{"kill", "rewrite"})
				if sc.Params["nodefault"] == "rewrite" && idx >= bound*bound {
					// a rewrite during the job only matters for a file longer than a reader's first buffer: 80-300 witness lines
					L = r.Range(80, 300)
					sc.Params["L"] = fmt.Sprint(L)
					if len(sc.Worlds) == 0 {
						p := batchProfile()
						p.MinYears, p.MaxYears = 1, 1
						sc.Worlds = []*World{GenWorld(r.Sub("witness", 0), p, paramTables)}
					}
					if sc.Params["alignline"] != "" {
						sc.Params["alignline"] = fmt.Sprint(r.Intn(L))
					}
					if sc.Params["longline"] != "" {
						sc.Params["longline"] = fmt.Sprint(r.Intn(L))
					}
				}
			}
			if r.Bool(0.35) {
				// a line end on the edge of a read buffer (4 KiB: bufio; 32 KiB: the calculator's own chunks; 64 KiB)
				sc.Params["alignline"] = fmt.Sprint(r.Intn(L))
				sc.Params["alignchunk"] = fmt.Sprint(r.PickI([]int{4096, 32768, 32768, 65536 - 4096}))
				sc.Params["aligndelta"] = fmt.Sprint(r.PickI([]int{-1, 0, 0, 1}))
			}
			return sc
		},
		Exec:  execC17,
		Quick: 12*12 + 96, Thorough: 40*40 + 1400,
		Chunk:      12,
		NonTrivial: func(res *Result) bool { return res.Stats["nodes.run"] > 1 },
		Rule:       "one (lines, nodes) pair per evaluation: exhaustive over 1..12 x 1..12 (thorough: 1..40 x 1..40) plus random pairs up to 2000 lines and 64 nodes; the batch file is generated with LF, CRLF or mixed endings, optional blank lines, optional missing final line break, optionally one line of 4-60 KiB, and in a quarter of the scenarios the calculator has been run before on another batch file of the same name (the present one moved into place with an older modification time); the real calculator binary (built from the tree) is run as a child process for -size and -list; each printed range is executed by a simulated node: a fresh session running the shipped dispatcher under the seeded scheduler with the indices main() derives from -lines a-b, on the lines main() would read; oracles: number of ranges = reported array size, ranges contiguous from 1 to the last line, multiset of executed log ids = every non-empty line exactly once; non-trivial = more than one node ran",
		ReachKeys:  []string{"nodes.run", "reach.more-nodes-than-lines", "reach.remainder", "reach.line-end-on-buffer-edge", "reach.batch-file-above-32k", "nodes.without-logoutput", "nodes.real-binary-without-logoutput", "reach.mixed-line-endings", "reach.line-longer-than-4k", "reach.witness-lines", "fault.calculator-ran-before-on-another-file-of-this-name", "fault.node-killed-and-range-started-again", "fault.batch-file-rewritten-in-place-during-the-job", "fault.batch-file-delivered-through-a-pipe-in-pieces"},
		Assumptions: []string{
			"the scheduled nodes use a re-implementation of main()'s flag parsing and batch-file reading (stub); every scenario with at most 64 ranges is therefore executed a second time through the shipped simulator binary with real -batch/-lines flags (unscheduled) and judged by the same exactly-once oracle",
			"lines are cheap failing lines (missing project argument) so that thousands of node runs fit in the budget; their log ids are read from the dispatcher's own output",
		},
	})
	// a node whose process exits (log.Fatal inside a run) leaves the rest of its range unexecuted
	deathHandlers["C17"] = func(r *Result, stderr string, code int, timedOut bool) {
		if timedOut {
			return
		}
		if strings.Contains(stderr, "panic:") {
			r.Status = "violation"
			r.Violations = append(r.Violations, Violation{Prop: "C17", Oracle: "node", Class: "node-process-panicked", Detail: "a node's process died while executing its range: " + panicLine(stderr)})
		} else if code == 1 {
			r.Status = "violation"
			r.Violations = append(r.Violations, Violation{Prop: "C17", Oracle: "node", Class: "node-process-exited", Detail: "a node's process exited inside a run (the remaining lines of its range are never executed): " + firstLine(lastNonEmpty(stderr))})
		}
	}
}
