package main

// C05 — output records: one per day, year and harvested crop, complete, in order.
// History check over the write streams recorded on the simulated disk.

import (
	"fmt"
	"strings"
)

type colKind struct {
	col  OutCol
	kind string
}

func c05Columns(r *RNG, n int, target string, maxLayer int) []OutCol {
	li := func() int { return r.Intn(max(1, maxLayer)) }
	var pool []func() OutCol
	switch target {
	case "crop":
		pool = []func() OutCol{
			func() OutCol { return OutCol{Var: r.PickS([]string{"Yield", "Biomass", "Roots", "LAImax", "Nuptake", "Nresid", "TRRel", "Reduk", "ETaG", "PerG"})} },
			func() OutCol { return OutCol{Var: r.PickS([]string{"SowDOY", "EmergDOY", "AnthDOY", "MatDOY"}), Fmt: "%d"} },
			func() OutCol { return OutCol{Var: "BBCH_DOY", I1: r.Intn(100), Fmt: "%d"} },
			func() OutCol { return OutCol{Var: "BBCH_DATE", I1: r.Intn(100), Fmt: "%s"} },
			func() OutCol { return OutCol{Var: r.PickS([]string{"SowDate", "Code", "Type", "Orgdat", "NotStableErr", "Tdat"}), Fmt: "%s"} },
			func() OutCol { return OutCol{Var: "NOSUCHFIELD", Fmt: "%s"} },
		}
	default:
		pool = []func() OutCol{
			func() OutCol { return OutCol{Var: r.PickS([]string{"GRW", "ETA", "OUTSUM", "SICKER", "TEMPdaily", "REGENdaily", "LAI", "OBMAS", "PESUM", "FLUSS0", "AUFNASUM", "CUMDENIT"}), Fmt: r.PickS([]string{"%v", "%.3f", "%8.4f", "%e"})} },
			func() OutCol { return OutCol{Var: r.PickS([]string{"N", "WURZ", "OUTN", "J", "MZ", "NBR", "BBCH", "JTAG", "AZHO"}), Fmt: "%d"} },
			func() OutCol { return OutCol{Var: r.PickS([]string{"TAG.Num", "INTWICK.Num", "AKF.Num", "DZ.Num"}), Fmt: "%v"} },
			func() OutCol { return OutCol{Var: r.PickS([]string{"TAG.Index", "INTWICK.Index", "AKF.Index", "NDG.Index", "NTIL.Index"}), Fmt: "%d"} },
			func() OutCol { return OutCol{Var: r.PickS([]string{"C1", "TD", "W", "WMIN", "TP", "Q1", "NAOS", "NFOS"}), I1: li()} },
			func() OutCol { return OutCol{Var: r.PickS([]string{"WG", "TSOIL"}), I1: r.Intn(2), I2: li()} },
			func() OutCol { return OutCol{Var: r.PickS([]string{"C1NotStable", "C1NotStableErr", "Crop", "FCODE", "POLYD", "SNAM"}), Fmt: "%s"} },
			func() OutCol { return OutCol{Var: r.PickS([]string{"BREG", "BRKZ"}), I1: r.Intn(20)} },
			func() OutCol { return OutCol{Var: "NOSUCHVARIABLE", Fmt: "%s"} },
			func() OutCol { return OutCol{Var: "C1", I1: 9999} }, // index beyond the array: not available
			func() OutCol { return OutCol{Var: "OUTSUM", Modifier: r.PickF([]float64{10, 0.1, -1})} },
		}
	}
	var cols []OutCol
	for i := 0; i < n; i++ {
		c := pool[r.Intn(len(pool))]()
		c.Width = 26
		cols = append(cols, c)
	}
	return cols
}

type c05Check struct {
	sep, fill string
	viols []Violation
	stats map[string]float64
}

func (c *c05Check) v(oracle, class string, day Day, detail string) {
	for _, x := range c.viols {
		if x.Class == class {
			return
		}
	}
	d := ""
	if day > 0 {
		d = day.ISO()
	}
	c.viols = append(c.viols, Violation{Prop: "C05", Oracle: oracle, Class: class, Day: d, Detail: detail})
}

// checkWidths validates the field count of every record of a stream.
func (c *c05Check) checkFields(name string, f *SimFile, cols []OutCol, csv bool) [][]string {
	sep, fill := c.sep, c.fill
	if sep == "" {
		sep = ","
	}
	if fill == "" {
		fill = " "
	}
	if f == nil {
		c.v("files", "result-file-missing:"+name, 0, "no "+name+" result file was written")
		return nil
	}
	if f.Open || f.Closes != f.Opens {
		c.v("streams", "file-left-open", 0, fmt.Sprintf("%s file: %d opens, %d closes", name, f.Opens, f.Closes))
	}
	if f.WritesAfterEnd > 0 {
		c.v("streams", "write-after-close", 0, fmt.Sprintf("%s file: %d writes after close", name, f.WritesAfterEnd))
	}
	text := string(f.Data)
	if len(text) > 0 && !strings.HasSuffix(text, "\n") {
		c.v("streams", "last-record-not-terminated", 0, name+" file does not end with a line break (a record was split by the end of the run)")
	}
	lines := strings.Split(text, "\n")
	if len(lines) > 0 && lines[len(lines)-1] == "" {
		lines = lines[:len(lines)-1]
	}
	var recs [][]string
	wantLen := 0
	for _, col := range cols {
		wantLen += col.Width + 1
	}
	for i, l := range lines {
		l = strings.TrimSuffix(l, "\r")
		if i == 0 {
			continue // one header line
		}
		var fs []string
		if csv {
			fs = strings.Split(l, sep)
			if len(fs) != len(cols) {
				c.v("field-count", "record-field-count-differs:"+name, 0, fmt.Sprintf("%s record %d has %d fields, the output configuration defines %d columns: %q", name, i, len(fs), len(cols), l))
				return recs
			}
		} else {
			if len([]rune(l)) != wantLen {
				c.v("field-count", "record-width-differs:"+name, 0, fmt.Sprintf("%s record %d is %d characters wide, the %d configured columns take %d: %q", name, i, len([]rune(l)), len(cols), wantLen, l))
				return recs
			}
			rs := []rune(l)
			pos := 0
			for _, col := range cols {
				fs = append(fs, strings.Trim(string(rs[pos:pos+col.Width]), fill+" "))
				pos += col.Width + 1
			}
		}
		for k := range fs {
			fs[k] = strings.TrimSpace(fs[k])
		}
		recs = append(recs, fs)
	}
	return recs
}

func execC05(sc *Scenario, env *Env) *Result {
	w := sc.World
	r := NewRNG(sc.Seed).Sub("c05cols", uint64(sc.Idx))
	if s := sc.Params["colseed"]; s != "" {
		var x uint64
		fmt.Sscan(s, &x)
		r = NewRNG(x)
	}
	n := w.Soil.N()
	oc := &OutputCfg{}
	// separator and fill character of the output configuration: ASCII and non-ASCII (multi-byte in UTF-8)
	oc.Sep = r.Sub("sep", 0).PickS([]string{",", ",", ",", ";", "|", "¦", "§"})
	oc.Fill = r.Sub("fill", 0).PickS([]string{" ", " ", " ", "~", "·"})
	if v, ok := sc.Params["sep"]; ok {
		oc.Sep = v
	}
	if v, ok := sc.Params["fill"]; ok {
		oc.Fill = v
	}
	oc.Daily = append([]OutCol{{Var: "AKTUELL", Fmt: "%s", Width: 12}}, c05Columns(r.Sub("d", 0), r.Range(0, 30), "daily", n)...)
	oc.Yearly = append([]OutCol{{Var: "AKTUELL", Fmt: "%s", Width: 12}}, c05Columns(r.Sub("y", 0), r.Range(0, 12), "daily", n)...)
	oc.Crop = append([]OutCol{{Var: "Crop", Fmt: "%s", Width: 8}, {Var: "HarvestYear", Fmt: "%d", Width: 8}, {Var: "HarvestDOY", Fmt: "%d", Width: 8}}, c05Columns(r.Sub("c", 0), r.Range(0, 12), "crop", n)...)
	days := 0
	cnt := &countOracle{days: &days}
	res, out := runTrajectory(sc, env, oc, []Oracle{cnt}, nil)
	if out == nil || res.Status == "crash" || res.Status == "invalid" {
		return res
	}
	chk := &c05Check{sep: oc.Sep, fill: oc.Fill}
	csv := w.Cfg.ResultFormat == 1
	if (csv && oc.Sep[0] >= 0x80) || (!csv && oc.Fill[0] >= 0x80) {
		res.add("reach.non-ascii-separator-or-fill", 1)
	}
	id := outIDWorld(w)
	start, end := w.Start(), w.Cfg.End
	annualInEnd := DayOf(end.Year(), w.Cfg.AnnualM, w.Cfg.AnnualD)
	extended := annualInEnd >= end
	// ---- daily
	if w.Cfg.OutInterval > 0 {
		recs := chk.checkFields("daily", findStream(out.Disk, "V", id), oc.Daily, csv)
		var want []Day
		for d := start; d <= end; d++ {
			if int(d)%w.Cfg.OutInterval == 0 {
				want = append(want, d)
			}
		}
		var got []Day
		for _, rec := range recs {
			d, err := ParseOutDate(rec[0], w.Cfg.DateFormat, w.Cfg.DivideCentury)
			if err != nil {
				chk.v("daily", "unparsable-daily-date", 0, "daily record dated "+rec[0])
				break
			}
			got = append(got, d)
		}
		for i := 1; i < len(got); i++ {
			if got[i] != got[i-1]+Day(w.Cfg.OutInterval) {
				chk.v("daily", "daily-records-not-consecutive", got[i], fmt.Sprintf("daily record %s follows %s (interval %d)", got[i].ISO(), got[i-1].ISO(), w.Cfg.OutInterval))
				break
			}
		}
		if len(got) > 0 && len(want) > 0 {
			if got[0] != want[0] {
				chk.v("daily", "first-daily-record-not-at-start", got[0], fmt.Sprintf("first daily record is dated %s, expected %s (simulation start %s, interval %d)", got[0].ISO(), want[0].ISO(), start.ISO(), w.Cfg.OutInterval))
			}
			last := got[len(got)-1]
			if last > want[len(want)-1] {
				cls := "daily-records-after-end-date"
				if extended {
					cls = "simulation-extended-past-end-date-by-annual-output-date"
				}
				chk.v("daily", cls, last, fmt.Sprintf("daily records run to %s, the configured end date is %s (annual output date in the end year: %s)", last.ISO(), end.ISO(), annualInEnd.ISO()))
			} else if last < want[len(want)-1] {
				chk.v("daily", "daily-records-end-early", last, fmt.Sprintf("daily records stop at %s, the configured end date is %s", last.ISO(), end.ISO()))
			}
		} else if len(want) > 0 && len(got) == 0 {
			chk.v("daily", "no-daily-records", 0, "daily output enabled but no record written")
		}
		if w.Cfg.OutInterval > 1 {
			res.add("reach.interval-gt-1", 1)
		}
		for _, d := range got {
			if _, m, dd := d.YMD(); m == 2 && dd == 29 {
				res.add("reach.leap-day-record", 1)
			}
		}
	} else if f := findStream(out.Disk, "V", id); f != nil {
		chk.v("daily", "daily-file-written-although-disabled", 0, "output interval 0 but a daily file exists")
	}
	// ---- yearly: one record per simulated year on the configured date
	{
		recs := chk.checkFields("yearly", findStream(out.Disk, "Y", id), oc.Yearly, csv)
		var want []Day
		simEnd := end
		if extended {
			simEnd = annualInEnd + 1 // known extension; the yearly oracle judges dates, not the extension
		}
		for y := start.Year(); y <= simEnd.Year(); y++ {
			a := DayOf(y, w.Cfg.AnnualM, w.Cfg.AnnualD)
			if a >= start && a <= simEnd {
				want = append(want, a)
			}
		}
		var got []Day
		for _, rec := range recs {
			d, err := ParseOutDate(rec[0], w.Cfg.DateFormat, w.Cfg.DivideCentury)
			if err != nil {
				chk.v("yearly", "unparsable-yearly-date", 0, "yearly record dated "+rec[0])
				break
			}
			got = append(got, d)
		}
		if len(got) != len(want) {
			chk.v("yearly", "yearly-record-count-differs", 0, fmt.Sprintf("%d yearly records %v, expected %d on %02d-%02d of each simulated year %v", len(got), isoList(got), len(want), w.Cfg.AnnualM, w.Cfg.AnnualD, isoList(want)))
		} else {
			for i := range got {
				if got[i] != want[i] {
					chk.v("yearly", "yearly-record-not-on-configured-date", got[i], fmt.Sprintf("yearly record dated %s, configured annual output date gives %s (end year %d)", got[i].ISO(), want[i].ISO(), end.Year()))
					break
				}
			}
		}
		if len(want) >= 2 {
			res.add("reach.multi-year", 1)
		}
	}
	// ---- crop: one record per harvested crop of the rotation, in order
	{
		recs := chk.checkFields("crop", findStream(out.Disk, "C", id), oc.Crop, csv)
		simEnd := end
		if extended {
			simEnd = annualInEnd + 1
		}
		var want []RotEntry
		for _, e := range w.Rot[1:] {
			if e.Harvest <= simEnd {
				want = append(want, e)
			}
		}
		if len(recs) != len(want) {
			chk.v("crop", "crop-record-count-differs", 0, fmt.Sprintf("%d crop records, the rotation has %d crops harvested inside the period", len(recs), len(want)))
		} else {
			for i, rec := range recs {
				y, _ := atoi(rec[1])
				doy, _ := atoi(rec[2])
				if strings.TrimSpace(rec[0]) != strings.TrimSpace(want[i].Crop) || y != want[i].Harvest.Year() || doy != want[i].Harvest.YearDay() {
					chk.v("crop", "crop-record-differs-from-rotation-entry", want[i].Harvest, fmt.Sprintf("crop record %d is (%s, %d, day %d), rotation entry is (%s, %d, day %d)", i+1, rec[0], y, doy, want[i].Crop, want[i].Harvest.Year(), want[i].Harvest.YearDay()))
					break
				}
			}
		}
		if len(want) > 0 {
			res.add("reach.crop-records", float64(len(want)))
		}
	}
	if csv {
		res.add("reach.csv-style", 1)
	} else {
		res.add("reach.fixed-width-style", 1)
	}
	res.Violations = append(res.Violations, chk.viols...)
	if len(res.Violations) > 0 {
		res.Status = "violation"
	}
	return res
}

func isoList(ds []Day) []string {
	var s []string
	for _, d := range ds {
		s = append(s, d.ISO())
	}
	return s
}

func init() {
	register(&CheckDef{
		Prop: "C05", Level: "exploration",
		Gen: func(r *RNG, idx int, tier string) *Scenario {
			p := DefaultProfile()
			p.MaxYears = 6
			if idx%12 == 11 {
				p.MinYears, p.MaxYears = 10, 25
			}
			p.ForceDaily = false
			p.AnnualBeforeEnd = false
			p.GWModes = []string{"soilfile"}
			p.Storms = 0.2
			w := GenWorld(r.Sub("world", 0), p, paramTables)
			w.Cfg.OutInterval = r.PickI([]int{1, 1, 1, 2, 3, 5, 7, 10, 0})
			// start / end on special days
			switch r.Intn(6) {
			case 0:
				y := w.Cfg.End.Year()
				if isLeap(y) {
					w.Cfg.End = DayOf(y, 2, 29)
				} else {
					w.Cfg.End = DayOf(y, 12, 31)
				}
			case 1:
				w.Cfg.End = DayOf(w.Cfg.End.Year(), 12, 31)
			case 2:
				w.Cfg.End = DayOf(w.Cfg.End.Year(), 1, 1)
			}
			if w.Cfg.End <= w.Start()+5 {
				w.Cfg.End = w.Start() + 400
			}
			if w.Weather.LastDay < DayOf(w.Cfg.End.Year()+1, 12, 31) {
				w.Weather.LastDay = DayOf(w.Cfg.End.Year()+1, 12, 31)
			}
			return &Scenario{Prop: "C05", Kind: "single", World: w, Bug: &BuggifySpec{Off: true}}
		},
		Exec:  execC05,
		Quick: 2000, Thorough: 60000,
		NonTrivial: func(res *Result) bool { return res.Status != "invalid" && res.Status != "crash" && (res.Stats["reach.multi-year"] > 0 || res.Stats["reach.crop-records"] > 0) },
		Rule:       "one generated world per evaluation with random start/end/annual dates (incl. 29 Feb, 31 Dec, 1 Jan, annual date after the end date), output intervals 0..10, both styles, ASCII and non-ASCII separator / fill characters, and generated output configurations over every supported kind of reference (float/int scalars, [i], [i][j], nested X.Num/X.Index, text incl. empty text, slice element, modifier, unknown variable, index out of range); the recorded V/Y/C write streams are checked as histories: exact set and order of record dates against the reference calendar, one yearly record per simulated year on the configured date, one crop record per harvested rotation entry in order, field count / record width per record, files closed once and terminated; non-trivial = more than one year or at least one crop record",
		ReachKeys:  []string{"reach.non-ascii-separator-or-fill", "reach.multi-year", "reach.crop-records", "reach.interval-gt-1", "reach.leap-day-record", "reach.csv-style", "reach.fixed-width-style"},
		Assumptions: []string{
			"column widths are generated wide enough for every value (26), so that a record's width is the sum of the configured widths",
			"the yearly and crop oracles take the known extension of the simulated period (annual output date on or after the end date) as given; the extension itself is judged by the daily oracle",
		},
	})
}

// countOracle only counts days (keeps runTrajectory's day statistics meaningful for stream checks).
type countOracle struct{ days *int }

func (c *countOracle) Probe(pt string, zeit, subd int, wdt float64, g *G, w *hermesWater, n *hermesNitro, cs *hermesCrop) {
	if pt == "dayend" {
		*c.days++
	}
}
func (c *countOracle) Finish(out *RunOutcome, res *Result) {}
