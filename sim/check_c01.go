package main

// C01 — soil water mass balance closes on every simulated day, for every
// number of sub-steps.

import (
	"fmt"
	"math"

	"github.com/zalf-rpm/Hermes2Go/hermes"
)

type c01Oracle struct {
	obase
	measDay   int
	sPre      float64
	sDayStart float64
	sPrevEnd  float64
	havePrev  bool
	wdtSum    float64
	steps     int
	sumTP     float64
	sumQN     float64
	sumQD     float64
	sicker0   float64
	capsum0   float64
	drai0     float64
	fluss0    float64
	gwaufSum  float64
	overwrite bool
	day       int
	w         *World
	wantDiff  float64
	haveDiff  bool
}

func storage(g *G, k int) float64 {
	s := 0.0
	for i := 0; i < g.N; i++ {
		s += g.WG[k][i] * g.DZ.Num
	}
	return s
}

func (o *c01Oracle) Probe(pt string, zeit, subd int, wdt float64, g *G, w *hermes.WaterSharedVars, n *hermes.NitroSharedVars, c *hermes.CropSharedVars) {
	switch pt {
	case "daystart":
		o.overwrite = zeit == o.measDay || zeit == g.MESS[g.MZ-1]
	case "evatra":
		// the reported daily net bottom flux (percolation minus capillary supply, written with yesterday's record) is the
		// change of the two public counters over yesterday - also across the annual reset of the counters
		if o.haveDiff && o.w != nil && o.w.Cfg.OutInterval == 1 && zeit == o.day+1 {
			if math.Abs(g.SickerDailyDiff-o.wantDiff) > tol(o.wantDiff, g.SICKER, g.CAPSUM)*10 {
				o.violate("public-counters", "reported-daily-percolation-differs-from-counters", o.day,
					fmt.Sprintf("the record of %s reports a net bottom flux of %.12g mm for the day, the percolation and capillary-supply counters changed by %.12g mm", Day(o.day).ISO(), g.SickerDailyDiff, o.wantDiff), nil)
			}
			o.hit("reach.daily-percolation-figure-checked")
		}
		o.day = zeit
		o.sDayStart = storage(g, 0)
		o.wdtSum, o.steps, o.sumTP, o.sumQN, o.sumQD, o.gwaufSum = 0, 0, 0, 0, 0, 0
		o.sicker0, o.capsum0, o.drai0 = g.SICKER, g.CAPSUM, g.DRAISUM
		o.fluss0 = g.FLUSS0
		// surface flux is rain + irrigation - actual evaporation
		surf := g.REGEN[g.TAG.Index] - g.ETA
		if math.Abs(surf-g.FLUSS0) > tol(surf, g.FLUSS0) {
			o.violate("surface-flux", "surface-flux-not-rain-minus-evaporation", zeit,
				fmt.Sprintf("surface flux %.12g != rain+irrigation-ETa %.12g", g.FLUSS0, surf),
				map[string]float64{"FLUSS0": g.FLUSS0, "REGEN": g.REGEN[g.TAG.Index], "ETA": g.ETA})
		}
		if d := g.REGEN[g.TAG.Index] - (g.REGENdaily + g.EffectiveIRRIG); math.Abs(d) > tol(g.REGENdaily, g.EffectiveIRRIG) {
			o.violate("surface-flux", "rain-plus-irrigation", zeit, fmt.Sprintf("day's surface input %.12g != rain %.12g + irrigation %.12g", g.REGEN[g.TAG.Index], g.REGENdaily, g.EffectiveIRRIG), nil)
		}
		// continuity with the previous day end
		if o.havePrev && !o.overwrite {
			if math.Abs(o.sDayStart-o.sPrevEnd) > tol(o.sDayStart, o.sPrevEnd) {
				o.violate("continuity", "storage-jump-between-days", zeit,
					fmt.Sprintf("storage at day start %.12g cm != storage at previous day end %.12g cm", o.sDayStart, o.sPrevEnd),
					map[string]float64{"start": o.sDayStart, "prev_end": o.sPrevEnd})
			}
		}
		if g.ETA < 0 {
			o.hit("neg.eta")
		}
		// the part of the bottom-boundary supply that is credited for root uptake from the groundwater layer is the
		// uptake the day's evapotranspiration step has just assigned to one layer: never more than the largest layer
		// uptake of this day (on a day without root uptake: nothing)
		maxTP, sumTP := 0.0, 0.0
		for i := 0; i < g.N; i++ {
			maxTP = math.Max(maxTP, g.TP[i])
			sumTP += g.TP[i]
		}
		if w.GWAUF < 0 || w.GWAUF > maxTP+tol(maxTP) {
			o.violate("public-counters", "groundwater-supply-booked-without-uptake", zeit,
				fmt.Sprintf("%.12g cm/d will be booked as groundwater supply for root uptake, but no layer delivers more than %.12g cm/d to the roots today (total uptake %.12g)", w.GWAUF, maxTP, sumTP), nil)
		}
	case "water.pre":
		if subd == 1 {
			o.sPre = storage(g, 0)
		} else {
			o.sPre = storage(g, 1)
		}
	case "water.post":
		sPost := storage(g, 1)
		tp := 0.0
		for i := 0; i < g.N; i++ {
			tp += g.TP[i]
		}
		in := g.FLUSS0 * wdt
		qn := g.Q1[g.N]
		lhs := sPost - o.sPre
		rhs := in - tp*wdt - qn - g.QDRAIN
		if r := lhs - rhs; !finite(r) {
			o.violate("finite", "non-finite-water-terms", zeit,
				fmt.Sprintf("sub-step %d: a term of the water balance is not finite: storage %.6g -> %.6g, surface %.6g, uptake %.6g, bottom %.6g, drain %.6g (N=%d)", subd, o.sPre, sPost, in, tp*wdt, qn, g.QDRAIN, g.N), nil)
		} else if math.Abs(r) > tol(sPost, o.sPre, in, tp*wdt, qn, g.QDRAIN) {
			cls := "substep-balance-residual"
			if r > 0 {
				cls += "-gain"
			} else {
				cls += "-loss"
			}
			o.violate("substep-balance", cls, zeit,
				fmt.Sprintf("sub-step %d (length %.6g): storage change %.12g cm but surface %.12g - uptake %.12g - bottom %.12g - drain %.12g = %.12g (residual %.3g)", subd, wdt, lhs, in, tp*wdt, qn, g.QDRAIN, rhs, r),
				map[string]float64{"residual": r, "subd": float64(subd), "wdt": wdt, "N": float64(g.N)})
		}
		o.wdtSum += wdt
		o.steps++
		o.sumTP += tp * wdt
		o.sumQN += qn
		o.sumQD += g.QDRAIN
		o.gwaufSum += w.GWAUF * wdt
		if g.QDRAIN > 0 {
			o.hit("reach.drain")
		}
		if qn < 0 {
			o.hit("reach.bottom-up")
		}
		if w.GWAUF > 0 {
			o.hit("reach.gw-uptake")
		}
		if g.FLUSS0 > 0 && subd > 1 {
			o.hit("reach.infiltration-substep")
		}
	case "dayend":
		if zeit != o.day {
			return
		}
		sEnd := storage(g, 1)
		o.sPrevEnd = sEnd
		o.havePrev = true
		// the sub-steps of a day cover exactly one day
		if math.Abs(o.wdtSum-1) > 1e-9 {
			o.violate("day-coverage", "substeps-do-not-cover-one-day", zeit,
				fmt.Sprintf("%d sub-steps of length %.12g cover %.12g of the day", o.steps, wdt, o.wdtSum),
				map[string]float64{"steps": float64(o.steps), "wdt": wdt, "covered": o.wdtSum})
		}
		// day-level balance with the day's full surface flux
		lhs := sEnd - o.sDayStart
		rhs := o.fluss0 - o.sumTP - o.sumQN - o.sumQD
		if r := lhs - rhs; finite(r) && math.Abs(r) > tol(sEnd, o.sDayStart, o.fluss0, o.sumTP, o.sumQN, o.sumQD)*10 {
			o.violate("day-balance", "day-balance-residual", zeit,
				fmt.Sprintf("day storage change %.12g cm != surface %.12g - uptake %.12g - bottom %.12g - drain %.12g (residual %.3g, %d sub-steps)", lhs, o.fluss0, o.sumTP, o.sumQN, o.sumQD, r, o.steps),
				map[string]float64{"residual": r, "steps": float64(o.steps)})
		}
		// public counters (percolation, capillary supply, drain) agree with the fluxes; leaching depth = profile bottom
		if g.OUTN == g.N {
			dq := (g.SICKER + g.CAPSUM - o.sicker0 - o.capsum0) / 10
			want := o.sumQN - o.gwaufSum
			if math.Abs(dq-want) > tol(g.SICKER, g.CAPSUM, o.sicker0, o.capsum0, o.sumQN)*10 {
				o.violate("public-counters", "percolation-counter-mismatch", zeit,
					fmt.Sprintf("percolation+capillary counters changed by %.12g cm, bottom flux minus groundwater uptake is %.12g cm", dq, want), nil)
			}
		}
		// (not on a measurement-overwrite day: the overwrite clears the counters in the middle of the day - outside the property's quantifier)
		o.wantDiff, o.haveDiff = (g.SICKER-math.Abs(g.CAPSUM))-(o.sicker0-math.Abs(o.capsum0)), !o.overwrite
		dd := (g.DRAISUM - o.drai0) / 10
		if math.Abs(dd-o.sumQD) > tol(g.DRAISUM, o.drai0, o.sumQD)*10 {
			o.violate("public-counters", "drain-counter-mismatch", zeit,
				fmt.Sprintf("drain counter changed by %.12g cm, drain outflow was %.12g cm", dd, o.sumQD), nil)
		}
		if o.steps >= 2 {
			o.hit("reach.multistep-day")
		}
	}
}

func (o *c01Oracle) Finish(out *RunOutcome, res *Result) { o.flush(res) }

func c01Profile() Profile {
	p := DefaultProfile()
	p.MaxYears = 6
	p.GWModes = []string{"soilfile"}
	p.AllowMeasMid = true
	p.AllowPTF = true
	p.AllowPeat = true
	p.Storms = 0.6
	return p
}

func init() {
	register(&CheckDef{
		Prop:  "C01",
		Level: "exploration",
		Gen: func(r *RNG, idx int, tier string) *Scenario {
			p := c01Profile()
			// swarm: a stratum of stony, coarse soils with cloudbursts (very many sub-steps)
			if idx%5 == 3 {
				p.MaxStone = 60
				p.Storms = 1
			}
			w := GenWorld(r.Sub("world", 0), p, paramTables)
			if idx%5 == 3 {
				for i := range w.Soil.Horizons {
					w.Soil.Horizons[i].Stone = r.Range(30, 60)
				}
				w.Weather.Events = append(w.Weather.Events, WeatherEvent{Day: w.Start() + Day(r.Range(1, 300)), Kind: "rain", Val: float64(r.Range(150, 400))})
			}
			// stratum: two irrigation gifts of the field dated on the same day (e.g. two nitrate concentrations)
			if len(w.Irr) > 0 && r.Bool(0.2) {
				w.IrrOn, w.Cfg.AutoIrr = true, false
				k := r.Intn(len(w.Irr))
				dup := w.Irr[k]
				dup.MM = r.PickI([]int{10, 15, 25, 40})
				w.Irr = append(w.Irr[:k+1], append([]IrrEvent{dup}, w.Irr[k+1:]...)...)
			}
			return &Scenario{Prop: "C01", Kind: "single", World: w, Bug: genBug(r.Sub("bug", 0), false)}
		},
		Exec: func(sc *Scenario, env *Env) *Result {
			o := &c01Oracle{w: sc.World}
			o.init("C01")
			o.measDay = int(sc.World.Meas.Day)
			res, _ := runTrajectory(sc, env, nil, []Oracle{o}, nil)
			return res
		},
		Quick:    2000,
		Thorough: 60000,
		NonTrivial: func(res *Result) bool {
			return res.Status != "invalid" && res.Status != "crash" && res.Stats["reach.multistep-day"] > 0
		},
		Rule:      "one generated world (soil x weather x management x configuration) per evaluation, run by the real session.Run with sub-step probes; non-trivial = the run completed and contained at least one day split into >= 2 sub-steps (natural or buggified); distinct = distinct hash of world+buggify spec",
		ReachKeys: []string{"reach.multistep-day", "reach.drain", "reach.bottom-up", "days.nat8", "bug.days"},
		Assumptions: []string{
			"probes read the model state through the verif hooks (guarded, add-only)",
			"constant groundwater (soil file), as the property states; measurement-overwrite days are excluded from continuity",
		},
	})
}
