package main

// Reflection walk: report the first non-finite float in a struct (exported and
// unexported fields, arrays, slices; maps and pointers are skipped).

import (
	"fmt"
	"math"
	"reflect"
)

func firstNonFinite(v interface{}) (path string, val float64, found bool) {
	rv := reflect.ValueOf(v)
	if rv.Kind() == reflect.Ptr {
		rv = rv.Elem()
	}
	if !hasNF(rv) { // fast pass without building paths
		return "", 0, false
	}
	return walkNF(rv, "")
}

func hasNF(v reflect.Value) bool {
	switch v.Kind() {
	case reflect.Float64, reflect.Float32:
		f := v.Float()
		return math.IsNaN(f) || math.IsInf(f, 0)
	case reflect.Struct:
		t := v.Type()
		for i := 0; i < v.NumField(); i++ {
			fk := t.Field(i).Type.Kind()
			if fk == reflect.Float64 || fk == reflect.Struct || fk == reflect.Array || fk == reflect.Slice {
				if hasNF(v.Field(i)) {
					return true
				}
			}
		}
	case reflect.Array, reflect.Slice:
		ek := v.Type().Elem().Kind()
		if ek != reflect.Float64 && ek != reflect.Array && ek != reflect.Struct && ek != reflect.Slice {
			return false
		}
		for i := 0; i < v.Len(); i++ {
			if hasNF(v.Index(i)) {
				return true
			}
		}
	}
	return false
}

func walkNF(v reflect.Value, path string) (string, float64, bool) {
	switch v.Kind() {
	case reflect.Float64, reflect.Float32:
		f := v.Float()
		if math.IsNaN(f) || math.IsInf(f, 0) {
			return path, f, true
		}
	case reflect.Struct:
		t := v.Type()
		for i := 0; i < v.NumField(); i++ {
			fk := t.Field(i).Type.Kind()
			if fk == reflect.Float64 || fk == reflect.Struct || fk == reflect.Array || fk == reflect.Slice {
				if p, f, ok := walkNF(v.Field(i), path+"."+t.Field(i).Name); ok {
					return p, f, true
				}
			}
		}
	case reflect.Array, reflect.Slice:
		ek := v.Type().Elem().Kind()
		if ek != reflect.Float64 && ek != reflect.Array && ek != reflect.Struct && ek != reflect.Slice {
			return "", 0, false
		}
		for i := 0; i < v.Len(); i++ {
			if p, f, ok := walkNF(v.Index(i), fmt.Sprintf("%s[%d]", path, i)); ok {
				return p, f, true
			}
		}
	}
	return "", 0, false
}
