package main

// Input loss positioned in the schedule (batch scenarios, C11): while the batch is under way — some runs parked
// between two records, others not yet started — the weather file of one later year of one project disappears
// (one-file-per-year layout: each run opens the year's file when its simulation reaches that year).
//
// Oracle:
//   * the batch terminates and the process survives;
//   * every line that does not read that file keeps all fault-free oracles;
//   * a line that reads it either is byte-identical to its solo run (it had passed that year already, or never gets
//     there) or fails: listed exactly once, under its own id, and what it wrote is a prefix of its solo streams
//     (records up to the lost year, nothing wrong, nothing from another line).

import (
	"bytes"
	"fmt"
	"os"
	"path/filepath"
	"strings"
)

// effectiveFCode of a batch line: the last fcode= argument wins.
func effectiveFCode(args []string) string {
	fc := ""
	for _, a := range args {
		if strings.HasPrefix(a, "fcode=") {
			fc = a[len("fcode="):]
		}
	}
	return fc
}

func execInputLoss(sc *Scenario, env *Env, root string, refs []*lineRef, order []int, run func(order []int, spec *SchedSpec, disk *SimDisk, abortAt int) *BatchOutcome, res *Result) []batchViol {
	r := NewRNG(sc.Sched.Sub).Sub("inputloss", 0)
	// candidate (world, year): one file per year, at least two simulated years
	type cand struct {
		world int
		year  int
	}
	var cands []cand
	for wi, w := range sc.Worlds {
		if w.Cfg.WeatherLayout != 0 {
			continue
		}
		for y := w.Start().Year() + 1; y <= w.Cfg.End.Year(); y++ {
			cands = append(cands, cand{wi, y})
		}
	}
	if len(cands) == 0 {
		out := run(order, sc.Sched, NewSimDisk(), 0)
		return checkBatchOutcome(sc, order, refs, out, res, false)
	}
	c := cands[r.Intn(len(cands))]
	w := sc.Worlds[c.world]
	file := filepath.Join(root, "weather", "wx", "MET_"+w.FCode+"."+yearExt(c.year))
	saved, err := os.ReadFile(file)
	if err != nil {
		out := run(order, sc.Sched, NewSimDisk(), 0)
		return checkBatchOutcome(sc, order, refs, out, res, false)
	}
	// 1. learn the length of the schedule, 2. same schedule again, the file disappears at a seeded decision
	probe := run(order, sc.Sched, NewSimDisk(), 0)
	vs := checkBatchOutcome(sc, order, refs, probe, res, false)
	n := len(probe.Decisions)
	if n < 3 {
		return vs
	}
	at := r.Range(1, n-1)
	if r.Bool(0.3) {
		at = r.Range(1, min(n-1, 40)) // early: most runs have not reached the year yet
	}
	if s := sc.Params["lossat"]; s != "" {
		fmt.Sscan(s, &at)
	}
	sp := *sc.Sched
	sp.Decisions, sp.Policy = probe.Decisions, ""
	deleted := false
	batchFaultHook = func(k int) {
		if k >= at && !deleted {
			deleted = true
			os.Remove(file)
		}
	}
	out := run(order, &sp, NewSimDisk(), 0)
	batchFaultHook = nil
	os.WriteFile(file, saved, 0o644)
	if !deleted {
		return vs
	}
	res.add("fault.year-file-deleted-mid-batch", 1)
	out.Excused = map[int]string{}
	for pos, li := range order {
		if sc.Lines[li].World == c.world && effectiveFCode(sc.lineArgs(li)) == w.FCode {
			out.Excused[pos] = "reads the lost weather file"
		}
	}
	for _, v := range checkBatchOutcome(sc, order, refs, out, res, false) {
		v.detail = fmt.Sprintf("[weather file of %d of project %s deleted at decision %d] ", c.year, w.Loc, at) + v.detail
		vs = append(vs, v)
	}
	if out.Panic != "" || out.DecisionCap || out.Deadlock != "" {
		return vs
	}
	rep := parseDispatcher(out.Stdout)
	failed := map[string]string{}
	for _, l := range rep.ErrorLines {
		id := l
		if k := strings.IndexByte(l, ' '); k > 0 {
			id = l[:k]
		}
		failed[id] = l
	}
	for pos := range out.Excused {
		li := order[pos]
		id := fmt.Sprintf("[%d]", pos)
		got := outputsOf(out.Disk, outIDOf(sc, li))
		if !refs[li].success {
			// a line that fails alone (for whatever reason) still fails; the lost file may change which error it meets first
			if _, isFailed := failed[id]; !isFailed {
				vs = append(vs, batchViol{"input-loss", "failing-line-not-reported", fmt.Sprintf("line %s fails alone (%s) but is not listed in the error summary after the weather file was lost", id, refs[li].err), id})
			}
			continue
		}
		if _, isFailed := failed[id]; !isFailed {
			if d := diffFiles(refs[li].files, got); d != "" {
				vs = append(vs, batchViol{"input-loss", "line-neither-fails-nor-equals-its-solo-run", fmt.Sprintf("line %s reads the weather file that was deleted at decision %d, is not reported as failed, and differs from its solo run: %s", id, at, d), id})
			} else {
				res.add("reach.line-unaffected-by-the-loss", 1)
			}
			continue
		}
		res.add("reach.line-failed-by-the-loss", 1)
		for name, data := range got {
			ref, ok := refs[li].files[name]
			if !isDataStream(name) {
				continue
			}
			if !ok || len(data) > len(ref) || !bytes.Equal(data, ref[:len(data)]) {
				vs = append(vs, batchViol{"input-loss", "failed-line-wrote-wrong-data", fmt.Sprintf("line %s failed after its weather file was lost; its stream %s (%d bytes) is not a prefix of its solo stream", id, name, len(data)), id})
				break
			}
		}
	}
	return vs
}
