package main

// Write-error faults on the simulated result disk (batch scenarios, C03 and C11).
//
// One line of the batch (the victim) meets a failing disk on one of its result
// streams: from the write that would extend the file beyond a seeded offset,
//   sticky  every later write on that stream fails (a full disk; what the shipped bufio-backed writer does)
//   window  the next k writes fail, later ones succeed again (quota freed, transient I/O error)
//   torn    the first failing write stores a proper prefix of its bytes, then as sticky or window
// The model ignores the error of a record write (the record is abandoned, the run goes on), so the fault creates
// torn records in flight while other runs are parked between their own records.
//
// Oracle (deliberately narrow, as the property quantifies over input errors, not over disk errors):
//   * the batch terminates (no deadlock, panic, process exit or exhausted decision budget);
//   * every OTHER line keeps all oracles of the fault-free case: streams byte-identical to its solo run, listed in
//     the error summary iff it fails alone, own files only;
//   * the victim is reported at most once and only under its own id;
//   * the faulted stream never holds wrong data: it equals the reference up to the first failed write; under a sticky
//     fault it is a prefix of the reference; under a transient fault it is the reference with bytes missing
//     (a subsequence) and, once the run has completed, everything behind the first record end after the last failed
//     write is a suffix of the reference (whole records again, none lost or duplicated afterwards).

import (
	"bytes"
	"fmt"
	"sort"
	"strings"
	"sync"
)

type diskVictim struct {
	pos, line int
	file      string // base name of the faulted stream
	kind      string
	off       int // the fault starts with the first write at a file size >= off
	length    int // window: number of failing writes
	tornKeep  float64

	mu       sync.Mutex
	started  bool
	fired    int
	firstOff int // file size before the first failed write
	lastEnd  int // file size after the last failed write
}

func isDataStream(base string) bool {
	if len(base) < 2 || strings.HasSuffix(base, ".yml") {
		return false
	}
	switch base[0] {
	case 'V', 'Y', 'C', 'P', 'M':
		return true
	}
	return false
}

func (v *diskVictim) fail(path string, op int, p []byte, size int) (int, error) {
	base := path[strings.LastIndexByte(path, '/')+1:]
	if base != v.file {
		return -1, nil
	}
	v.mu.Lock()
	defer v.mu.Unlock()
	if !v.started {
		if size+len(p) <= v.off {
			return -1, nil
		}
		v.started = true
		v.firstOff = size
		keep := 0
		if v.kind == "torn" && len(p) > 1 {
			keep = int(v.tornKeep * float64(len(p)))
			if keep >= len(p) {
				keep = len(p) - 1
			}
		}
		v.fired++
		v.lastEnd = size + keep
		return keep, errDiskFull
	}
	transient := v.kind == "window" || (v.kind == "torn" && v.length > 0)
	if transient && v.fired >= v.length {
		return -1, nil
	}
	v.fired++
	v.lastEnd = size
	return 0, errDiskFull
}

func isSubsequence(got, ref []byte) bool {
	j := 0
	for i := 0; i < len(ref) && j < len(got); i++ {
		if ref[i] == got[j] {
			j++
		}
	}
	return j == len(got)
}

func execDiskFault(sc *Scenario, env *Env, refs []*lineRef, order []int, run func(order []int, spec *SchedSpec, disk *SimDisk, abortAt int) *BatchOutcome, res *Result) []batchViol {
	r := NewRNG(sc.Sched.Sub).Sub("diskfault", 0)
	type cand struct {
		pos   int
		names []string
	}
	var cands []cand
	for pos, li := range order {
		if !refs[li].success {
			continue
		}
		var names []string
		for n, d := range refs[li].files {
			if isDataStream(n) && len(d) > 0 {
				names = append(names, n)
			}
		}
		sort.Strings(names)
		if len(names) > 0 {
			cands = append(cands, cand{pos, names})
		}
	}
	disk := NewSimDisk()
	if len(cands) == 0 {
		out := run(order, sc.Sched, disk, 0)
		return checkBatchOutcome(sc, order, refs, out, res, false)
	}
	c := cands[r.Intn(len(cands))]
	v := &diskVictim{pos: c.pos, line: order[c.pos]}
	v.file = c.names[r.Intn(len(c.names))]
	ref := refs[v.line].files[v.file]
	v.kind = r.PickS([]string{"sticky", "sticky", "window", "window", "torn", "torn"})
	switch r.Intn(4) {
	case 0:
		v.off = r.Intn(min(len(ref), 400)) // inside the header / the first records
	case 1:
		v.off = len(ref) - 1 - r.Intn(min(len(ref), 400)) // inside the last records
	default:
		v.off = r.Intn(len(ref))
	}
	if v.kind == "window" || (v.kind == "torn" && r.Bool(0.5)) {
		v.length = r.PickI([]int{1, 1, 2, 5, 40, 300})
	}
	v.tornKeep = r.F()
	disk.FailWrite = v.fail
	out := run(order, sc.Sched, disk, 0)
	if v.fired == 0 {
		// the victim never wrote that far (cannot happen on the unchanged tree: the offset lies inside the reference stream)
		res.add("fault.write-error.not-fired", 1)
		return checkBatchOutcome(sc, order, refs, out, res, false)
	}
	res.add("fault.write-error."+v.kind, float64(v.fired))
	res.add("fault.write-error.scenarios", 1)
	out.Victim = v
	vs := checkBatchOutcome(sc, order, refs, out, res, false)
	if out.Panic != "" || out.DecisionCap || out.Deadlock != "" {
		return vs
	}
	id := fmt.Sprintf("[%d]", v.pos)
	add := func(class, detail string) {
		vs = append(vs, batchViol{"disk-fault", class, fmt.Sprintf("line %s stream %s, %s fault from offset %d (%d failed writes): %s", id, v.file, v.kind, v.firstOff, v.fired, detail), id})
	}
	got := outputsOf(out.Disk, outIDOf(sc, v.line))[v.file]
	if f := v.firstOff; f > len(got) || f > len(ref) || !bytes.Equal(got[:f], ref[:f]) {
		add("faulted-stream-wrong-before-the-fault", "the bytes written before the first failed write differ from the reference")
		return vs
	}
	transient := v.length > 0
	if !transient {
		if len(got) > len(ref) || !bytes.Equal(got, ref[:len(got)]) {
			add("faulted-stream-not-a-prefix", fmt.Sprintf("every write after the first failure failed, yet the stream (%d bytes) is not a prefix of the reference (%d bytes)", len(got), len(ref)))
		}
		return vs
	}
	if !isSubsequence(got, ref) {
		add("faulted-stream-holds-wrong-data", "the stream is not the reference with bytes missing")
		return vs
	}
	// did the victim complete? (it may legitimately end with a run error of its own after a failed write)
	rep := parseDispatcher(out.Stdout)
	for _, l := range rep.ErrorLines {
		if strings.HasPrefix(l, id+" ") || l == id {
			res.add("reach.victim-reported-failed", 1)
			return vs
		}
	}
	if v.lastEnd <= len(got) {
		tail := got[v.lastEnd:]
		if k := bytes.IndexByte(tail, '\n'); k >= 0 {
			rest := tail[k+1:]
			if !bytes.HasSuffix(ref, rest) {
				add("records-after-the-fault-differ", fmt.Sprintf("the %d bytes behind the first record end after the last failed write are not the end of the reference stream", len(rest)))
			} else if len(rest) > 0 {
				res.add("reach.records-resumed-after-fault", 1)
			}
		}
	}
	return vs
}
