package main

// Child processes of the shipped binaries (simulator, calculator) with a time limit and, optionally, an interaction at
// a defined moment of the child's life: when it prints its first "run started" line (the batch file has been read by
// then; runs are under way).

import (
	"bufio"
	"bytes"
	"errors"
	"io"
	"os/exec"
	"strings"
	"sync"
	"syscall"
	"time"
)

var errChildTimeout = errors.New("child process did not end within its time limit")

// runChild runs the command and returns its combined output. onStarted, if not nil, is called once, from another
// goroutine, as soon as the child has printed a line that looks like the dispatcher's "[n]" start line or any line
// beginning with "[" (a run has been started); it may kill the child (return value true = the child was killed on
// purpose, its exit status is then not an error).
func runChild(cmd *exec.Cmd, limit time.Duration, onStarted func(c *exec.Cmd) (killed bool)) (string, error) {
	pr, pw := io.Pipe()
	var buf bytes.Buffer
	var mu sync.Mutex
	cmd.Stdout, cmd.Stderr = pw, pw
	if err := cmd.Start(); err != nil {
		return "", err
	}
	killedOnPurpose := false
	readerDone := make(chan struct{})
	go func() {
		defer close(readerDone)
		br := bufio.NewReaderSize(pr, 1<<20)
		fired := false
		for {
			line, err := br.ReadString('\n')
			mu.Lock()
			buf.WriteString(line)
			mu.Unlock()
			if !fired && onStarted != nil && strings.HasPrefix(strings.TrimSpace(line), "[") {
				fired = true
				if onStarted(cmd) {
					mu.Lock()
					killedOnPurpose = true
					mu.Unlock()
				}
			}
			if err != nil {
				return
			}
		}
	}()
	done := make(chan error, 1)
	go func() { done <- cmd.Wait() }()
	var err error
	select {
	case err = <-done:
	case <-time.After(limit):
		cmd.Process.Signal(syscall.SIGQUIT)
		select {
		case <-done:
		case <-time.After(3 * time.Second):
			cmd.Process.Kill()
			<-done
		}
		err = errChildTimeout
	}
	pw.Close()
	<-readerDone
	mu.Lock()
	defer mu.Unlock()
	if killedOnPurpose && err != errChildTimeout {
		err = nil
	}
	return buf.String(), err
}
