package main

// C18 — a crop-parameter override on the batch line equals the same edit in a
// copy of the crop parameter file; an out-of-range override is rejected as a
// whole. Paired lines run in ONE session under the seeded scheduler (the
// original crop file is pooled and shared between them).

import (
	"fmt"
	"os"
	"path/filepath"
	"regexp"
	"strconv"
	"strings"
	"time"
)

type cropEdit struct {
	Name  string // MAXAMAX, TSUM, PRO, ...
	Stage int    // 0 = base parameter
	Part  int    // 0 = not a partitioning parameter
	Val   string // decimal text written identically on the line and into the file
}

func (e cropEdit) arg() string {
	switch {
	case e.Part > 0:
		return fmt.Sprintf("c_%s_%d_%d=%s", e.Name, e.Stage, e.Part, e.Val)
	case e.Stage > 0:
		return fmt.Sprintf("c_%s_%d=%s", e.Name, e.Stage, e.Val)
	}
	return fmt.Sprintf("c_%s=%s", e.Name, e.Val)
}

// ---- YAML crop file (regular layout written by the shipped converter)

func ymlInt(content, key string) int {
	m := regexp.MustCompile(`(?m)^` + key + `:\s*([0-9]+)`).FindStringSubmatch(content)
	if m == nil {
		return 0
	}
	n, _ := strconv.Atoi(m[1])
	return n
}

func ymlList(content string, stage int, key string) []string {
	lines := strings.Split(content, "\n")
	st := 0
	for i, l := range lines {
		t := strings.TrimSpace(l)
		if strings.Contains(t, "DevelopmentStageName:") {
			st++
		}
		if st == stage && t == key+":" {
			var out []string
			for _, l2 := range lines[i+1:] {
				t2 := strings.TrimSpace(l2)
				if strings.HasPrefix(t2, "- ") {
					out = append(out, strings.TrimSpace(t2[2:]))
				} else if strings.HasPrefix(t2, "#") {
					continue
				} else {
					break
				}
			}
			return out
		}
	}
	return nil
}

func editYml(content string, e cropEdit) (string, error) {
	key := e.Name
	if key == "KC" {
		key = "Kc"
	}
	lines := strings.Split(content, "\n")
	if e.Stage == 0 {
		for i, l := range lines {
			if strings.HasPrefix(l, key+":") {
				lines[i] = key + ": " + e.Val
				return strings.Join(lines, "\n"), nil
			}
		}
		return "", fmt.Errorf("base key %s not found", key)
	}
	st := 0
	for i, l := range lines {
		t := strings.TrimSpace(l)
		if strings.Contains(t, "DevelopmentStageName:") {
			st++
		}
		if st != e.Stage {
			continue
		}
		ind := l[:len(l)-len(strings.TrimLeft(l, " "))]
		if e.Part == 0 && strings.HasPrefix(t, key+":") {
			lines[i] = ind + key + ": " + e.Val
			return strings.Join(lines, "\n"), nil
		}
		if e.Part > 0 && t == key+":" {
			k := 0
			for j := i + 1; j < len(lines); j++ {
				t2 := strings.TrimSpace(lines[j])
				if strings.HasPrefix(t2, "- ") {
					k++
					if k == e.Part {
						ind2 := lines[j][:len(lines[j])-len(strings.TrimLeft(lines[j], " "))]
						lines[j] = ind2 + "- " + e.Val
						return strings.Join(lines, "\n"), nil
					}
				} else if !strings.HasPrefix(t2, "#") {
					break
				}
			}
			return "", fmt.Errorf("part %d of %s in stage %d not found", e.Part, key, e.Stage)
		}
	}
	return "", fmt.Errorf("key %s in stage %d not found", key, e.Stage)
}

// ---- classic crop file (fixed line order, values from column 65, partitioning in 5-character fields)

func editClassic(content string, e cropEdit) (string, error) {
	eol := "\n"
	if strings.Contains(content, "\r\n") {
		eol = "\r\n"
	}
	lines := strings.Split(strings.ReplaceAll(content, "\r\n", "\n"), "\n")
	setTail := func(i int, val string) error {
		if i >= len(lines) {
			return fmt.Errorf("line %d missing", i)
		}
		l := lines[i]
		for len(l) < 65 {
			l += " "
		}
		lines[i] = l[:65] + "  " + val
		return nil
	}
	var err error
	switch {
	case e.Stage == 0:
		idx := map[string]int{"MAXAMAX": 3, "MINTMP": 5, "WUMAXPF": 6, "VELOC": 7, "INITCONCNBIOM": 11, "INITCONCNROOT": 12}
		i, ok := idx[e.Name]
		if !ok {
			return "", fmt.Errorf("base parameter %s not editable in the classic layout", e.Name)
		}
		err = setTail(i, e.Val)
	default:
		h := 19 + 13*(e.Stage-1)
		off := map[string]int{"TSUM": 1, "BAS": 2, "VSCHWELL": 3, "DAYL": 4, "DLBAS": 5, "DRYSWELL": 6, "LUKRIT": 7, "LAIFKT": 8, "WGMAX": 9, "PRO": 10, "DEAD": 11, "KC": 12}
		o, ok := off[e.Name]
		if !ok {
			return "", fmt.Errorf("stage parameter %s unknown", e.Name)
		}
		if h+o >= len(lines) || !strings.Contains(lines[h], "Entwicklungsphase") && !strings.HasPrefix(lines[h], "----") {
			return "", fmt.Errorf("stage %d header not where expected", e.Stage)
		}
		if e.Part == 0 {
			err = setTail(h+o, e.Val)
		} else {
			l := lines[h+o]
			a, b := 25+8*e.Part, 30+8*e.Part
			for len(l) < b {
				l += " "
			}
			f, _ := strconv.ParseFloat(e.Val, 64)
			field := fmt.Sprintf("%5.3f", f)
			if len(field) != 5 {
				return "", fmt.Errorf("value %s does not fit a 5-character field", e.Val)
			}
			lines[h+o] = l[:a] + field + l[b:]
		}
	}
	if err != nil {
		return "", err
	}
	return strings.Join(lines, eol), nil
}

// ---- generation

func genEdits(r *RNG, nStages, nParts int, yml bool, content string) []cropEdit {
	f := func(lo, hi float64, dec int) string { return strconv.FormatFloat(round(r.FRange(lo, hi), dec), 'f', -1, 64) }
	st := func() int { return r.Range(1, nStages) }
	var out []cropEdit
	used := map[string]bool{}
	for k := r.Range(1, 3); k > 0; k-- {
		var es []cropEdit
		switch r.Intn(23) {
		case 19, 20, 21, 22:
			es = []cropEdit{{Name: "TSUM", Stage: st(), Val: f(50, 800, 0)}}
		case 0:
			es = []cropEdit{{Name: "MAXAMAX", Val: f(20, 100, 1)}}
		case 1:
			es = []cropEdit{{Name: "MINTMP", Val: f(0, 10, 1)}}
		case 2:
			es = []cropEdit{{Name: "WUMAXPF", Val: f(3, 20, 0)}}
		case 3:
			es = []cropEdit{{Name: "VELOC", Val: f(0.1, 1, 2)}}
		case 4:
			if yml {
				es = []cropEdit{{Name: "YIFAK", Val: f(0.1, 1, 2)}}
			}
		case 5:
			es = []cropEdit{{Name: "INITCONCNBIOM", Val: f(1, 8, 1)}}
		case 6:
			es = []cropEdit{{Name: "INITCONCNROOT", Val: f(0.5, 3, 1)}}
		case 7, 8:
			es = []cropEdit{{Name: "TSUM", Stage: st(), Val: f(50, 800, 0)}}
		case 9:
			es = []cropEdit{{Name: "BAS", Stage: st(), Val: f(0, 10, 1)}}
		case 10:
			es = []cropEdit{{Name: "VSCHWELL", Stage: st(), Val: f(0, 50, 0)}}
		case 11:
			s := st()
			es = []cropEdit{{Name: "DAYL", Stage: s, Val: f(13, 16, 1)}, {Name: "DLBAS", Stage: s, Val: f(4, 10, 1)}}
		case 12:
			es = []cropEdit{{Name: "DRYSWELL", Stage: st(), Val: f(0.1, 1, 2)}}
		case 13:
			es = []cropEdit{{Name: "LUKRIT", Stage: st(), Val: f(0, 0.1, 3)}}
		case 14:
			es = []cropEdit{{Name: "LAIFKT", Stage: st(), Val: f(0.0005, 0.004, 4)}}
		case 15:
			es = []cropEdit{{Name: "WGMAX", Stage: st(), Val: f(0.005, 0.03, 3)}}
		case 16:
			es = []cropEdit{{Name: "KC", Stage: st(), Val: f(0.3, 1.4, 2)}}
		case 17:
			// move 0.1 of the partitioning between two organs of one stage (the sum stays 1)
			if yml && nParts >= 2 {
				s := st()
				vals := ymlList(content, s, "PRO")
				if len(vals) >= nParts {
					a := r.Range(1, nParts)
					b := r.Range(1, nParts)
					va, _ := strconv.ParseFloat(vals[a-1], 64)
					vb, _ := strconv.ParseFloat(vals[b-1], 64)
					if a != b && va >= 0.1 && vb <= 0.9 {
						es = []cropEdit{{Name: "PRO", Stage: s, Part: a, Val: strconv.FormatFloat(round(va-0.1, 3), 'f', -1, 64)}, {Name: "PRO", Stage: s, Part: b, Val: strconv.FormatFloat(round(vb+0.1, 3), 'f', -1, 64)}}
					}
				}
			}
		case 18:
			es = []cropEdit{{Name: "DEAD", Stage: st(), Part: r.Range(1, nParts), Val: f(0, 0.05, 3)}}
		}
		for _, e := range es {
			key := fmt.Sprintf("%s/%d/%d", e.Name, e.Stage, e.Part)
			if used[key] {
				es = nil
			}
		}
		for _, e := range es {
			used[fmt.Sprintf("%s/%d/%d", e.Name, e.Stage, e.Part)] = true
			out = append(out, e)
		}
	}
	return out
}

func genInvalidEdit(r *RNG, nStages, nParts int) cropEdit {
	st := func() int { return r.Range(1, nStages) }
	// one value just outside the documented range of one parameter, or an index outside the crop's stages / organs
	table := []func() cropEdit{
		func() cropEdit { return cropEdit{Name: "MAXAMAX", Val: r.PickS([]string{"0", "100.5", "150", "-3"})} },
		func() cropEdit { return cropEdit{Name: "MINTMP", Val: r.PickS([]string{"-30", "50", "-45"})} },
		func() cropEdit { return cropEdit{Name: "WUMAXPF", Val: r.PickS([]string{"0", "20.5", "25"})} },
		func() cropEdit { return cropEdit{Name: "VELOC", Val: r.PickS([]string{"0", "1.5", "1.01", "50", "150"})} },
		func() cropEdit { return cropEdit{Name: "YIFAK", Val: r.PickS([]string{"-0.1", "1.1", "4.8"})} },
		func() cropEdit { return cropEdit{Name: "INITCONCNBIOM", Val: r.PickS([]string{"-1", "101"})} },
		func() cropEdit { return cropEdit{Name: "INITCONCNROOT", Val: r.PickS([]string{"-0.5", "100.5"})} },
		func() cropEdit { return cropEdit{Name: "TSUM", Stage: st(), Val: r.PickS([]string{"-5", "10001"})} },
		func() cropEdit { return cropEdit{Name: "BAS", Stage: st(), Val: r.PickS([]string{"-10.5", "40.5"})} },
		func() cropEdit { return cropEdit{Name: "VSCHWELL", Stage: st(), Val: r.PickS([]string{"-1", "101"})} },
		func() cropEdit { return cropEdit{Name: "DAYL", Stage: st(), Val: r.PickS([]string{"-24.5", "24.5"})} },
		func() cropEdit { return cropEdit{Name: "DLBAS", Stage: st(), Val: r.PickS([]string{"-25", "25"})} },
		func() cropEdit { return cropEdit{Name: "DRYSWELL", Stage: st(), Val: r.PickS([]string{"-0.1", "1.5"})} },
		func() cropEdit { return cropEdit{Name: "LUKRIT", Stage: st(), Val: r.PickS([]string{"-0.01", "1.2"})} },
		func() cropEdit { return cropEdit{Name: "LAIFKT", Stage: st(), Val: r.PickS([]string{"-0.001", "100.5"})} },
		func() cropEdit { return cropEdit{Name: "WGMAX", Stage: st(), Val: r.PickS([]string{"-0.01", "101"})} },
		func() cropEdit { return cropEdit{Name: "KC", Stage: st(), Val: r.PickS([]string{"0", "-0.5"})} },
		func() cropEdit { return cropEdit{Name: "PRO", Stage: st(), Part: r.Range(1, nParts), Val: r.PickS([]string{"1.5", "-0.1"})} },
		func() cropEdit { return cropEdit{Name: "DEAD", Stage: st(), Part: r.Range(1, nParts), Val: r.PickS([]string{"1.1", "-0.01"})} },
	}
	if nStages < 9 {
		table = append(table, func() cropEdit { return cropEdit{Name: "BAS", Stage: nStages + 1, Val: "5"} }, func() cropEdit { return cropEdit{Name: "TSUM", Stage: nStages + 1, Val: "100"} })
	}
	if nParts < 5 {
		table = append(table, func() cropEdit { return cropEdit{Name: "DEAD", Stage: 1, Part: nParts + 1, Val: "0.01"} })
	}
	return table[r.Intn(len(table))]()
}

func genC18(r *RNG, idx int, tier string) *Scenario {
	p := batchProfile()
	p.MinYears, p.MaxYears = 2, 2
	p.BareProb = 0
	p.ForceDaily = true
	p.GWModes = []string{"soilfile"}
	w := GenWorld(r.Sub("world", 0), p, paramTables)
	// every shipped annual crop file gets its turn
	crops := annualCrops
	c := crops[idx%len(crops)]
	if len(w.Rot) > 1 && paramTables.Crops[c] {
		e := &w.Rot[1]
		if winterCrops[c] != winterCrops[e.Crop] {
			// keep the dates plausible for the crop type
			y := e.Sow.Year()
			if winterCrops[c] {
				e.Sow, e.Harvest = DayOf(y, 9, 20), DayOf(y+1, 7, 25)
			} else {
				e.Sow, e.Harvest = DayOf(y+1, 4, 10), DayOf(y+1, 9, 5)
			}
			w.Rot = w.Rot[:2]
			if e.Harvest+10 > w.Cfg.End {
				w.Cfg.End = e.Harvest + 30
				if w.Weather.LastDay < DayOf(w.Cfg.End.Year()+1, 12, 31) {
					w.Weather.LastDay = DayOf(w.Cfg.End.Year()+1, 12, 31)
				}
			}
			w.Till = nil
		}
		e.Crop = c
		e.Variety = ""
		if vs := paramTables.Varieties[c]; len(vs) > 0 && r.Bool(0.3) {
			e.Variety = r.PickS(vs)
		}
	}
	switch idx % 9 {
	case 4:
		// the overridden file's name is a prefix of another crop file of the same rotation (winter rye, then winter rape)
		if paramTables.Crops["WR"] && paramTables.Crops["WRA"] {
			y := w.Start().Year()
			if DayOf(y, 10, 5) <= w.Start()+5 {
				y++
			}
			w.Rot = []RotEntry{w.Rot[0], {Crop: "WR", Sow: DayOf(y, 10, 5), Harvest: DayOf(y+1, 7, 28), Rex: 100}, {Crop: r.PickS([]string{"WRA", "WRC"}), Sow: DayOf(y+1, 8, 25), Harvest: DayOf(y+2, 7, 20), Rex: 100}}
			if !paramTables.Crops[w.Rot[2].Crop] {
				w.Rot[2].Crop = "WRA"
			}
			w.Till, w.Cfg.End = nil, DayOf(y+2, 8, 31)
			w.Cfg.CropParamFmt = "txt"
		}
	case 7:
		// a perennial stand established after another crop and then following itself
		per := r.PickS([]string{"GR", "AA"})
		if paramTables.Crops[per] {
			y := w.Start().Year()
			w.Rot = []RotEntry{w.Rot[0], {Crop: "SM", Sow: DayOf(y+1, 4, 25), Harvest: DayOf(y+1, 9, 20), Rex: 100}, {Crop: per, Sow: DayOf(y+2, 4, 5), Harvest: DayOf(y+2, 10, 15)}, {Crop: per, Sow: DayOf(y+2, 10, 16), Harvest: DayOf(y+3, 10, 15)}}
			w.Till, w.Cfg.End = nil, DayOf(y+3, 11, 15)
			w.Rot = append(w.Rot[:1], w.Rot[2:]...) // the overridden crop is the rotation's second entry in the file: SM goes first only in the variant below
			if r.Bool(0.7) {
				w.Rot = []RotEntry{w.Rot[0], {Crop: "SM", Sow: DayOf(y+1, 4, 25), Harvest: DayOf(y+1, 9, 20), Rex: 100}, w.Rot[1], w.Rot[2]}
			}
		}
	}
	if w.Weather.LastDay < DayOf(w.Cfg.End.Year()+1, 12, 31) {
		w.Weather.LastDay = DayOf(w.Cfg.End.Year()+1, 12, 31)
	}
	if w.Cfg.Prognose > 0 {
		w.Cfg.Prognose = 0
	}
	w.Auto = genAutoLines(r, w)
	fixAnnual(w)
	sc := &Scenario{Kind: "batch", Worlds: []*World{w}, Params: map[string]string{"editseed": fmt.Sprint(r.U64()), "stratum": fmt.Sprint(idx % 9)}}
	// lines: 0 baseline, 1 override on the line, 2 edited copy, 3 rejected override; the generator of the edits runs at execution time (it reads the crop file)
	for i := 0; i < 4; i++ {
		sc.Lines = append(sc.Lines, BatchLine{World: 0})
	}
	sp := &SchedSpec{Sub: r.U64(), Policy: r.PickS([]string{"random", "random", "fifo", "lifo", "starve"}), RecordP: r.PickF([]float64{1, 1.0 / 7, 1.0 / 30})}
	sp.Concurrency = r.Range(1, 4)
	sp.NoPoolYield = r.Bool(0.15) // coarse stratum: no parking at pooled-file Gets
	sc.Sched = sp
	return sc
}

func copyDir(src, dst string) error {
	ents, err := os.ReadDir(src)
	if err != nil {
		return err
	}
	if err := os.MkdirAll(dst, 0o755); err != nil {
		return err
	}
	for _, e := range ents {
		if e.IsDir() {
			continue
		}
		b, err := os.ReadFile(filepath.Join(src, e.Name()))
		if err != nil {
			return err
		}
		if err := os.WriteFile(filepath.Join(dst, e.Name()), b, 0o644); err != nil {
			return err
		}
	}
	return nil
}

func execC18(sc *Scenario, env *Env) *Result {
	t0 := time.Now()
	res := &Result{Idx: sc.Idx, Status: "ok"}
	w := sc.Worlds[0]
	if len(w.Rot) < 2 {
		res.Status, res.Note = "invalid", "no crop in rotation"
		return res
	}
	root, err := materialiseBatch(sc, env, nil)
	if err != nil {
		res.Status, res.Note = "invalid", err.Error()
		return res
	}
	if err := copyDir(env.ParamDir, filepath.Join(root, "param2")); err != nil {
		res.Status, res.Note = "invalid", err.Error()
		return res
	}
	e := w.Rot[1]
	if sc.Params["stratum"] == "7" {
		for _, x := range w.Rot[1:] {
			if x.Crop == "GR" || x.Crop == "AA" {
				e = x
				break
			}
		}
	}
	yml := w.Cfg.CropParamFmt == "yml"
	fname := "PARAM." + e.Crop
	if e.Variety != "" {
		fname = "PARAM_" + e.Variety + "." + e.Crop
	}
	ymlContentB, err := os.ReadFile(filepath.Join(env.ParamDir, fname+".yml"))
	if err != nil {
		res.Status, res.Note = "invalid", err.Error()
		return res
	}
	ymlContent := string(ymlContentB)
	if yml {
		fname += ".yml"
	}
	nStages, nParts := ymlInt(ymlContent, "NRENTW"), ymlInt(ymlContent, "NRKOM")
	if nStages == 0 || nParts == 0 {
		res.Status, res.Note = "invalid", "crop file layout not understood: "+fname
		return res
	}
	var seed uint64
	fmt.Sscan(sc.Params["editseed"], &seed)
	r := NewRNG(seed)
	edits := genEdits(r.Sub("edits", 0), nStages, nParts, yml, ymlContent)
	if s := sc.Params["edits"]; s != "" {
		edits = parseEdits(s)
	}
	if len(edits) == 0 {
		edits = []cropEdit{{Name: "TSUM", Stage: 1, Val: "123"}}
	}
	if sc.Params["stratum"] == "7" && sc.Params["edits"] == "" {
		have := false
		for _, ed := range edits {
			have = have || strings.HasPrefix(ed.Name, "INITCONC")
		}
		if !have {
			edits = append(edits, cropEdit{Name: r.PickS([]string{"INITCONCNBIOM", "INITCONCNROOT"}), Val: r.PickS([]string{"1.5", "2.5", "4", "6.5"})})
		}
	}
	bad := genInvalidEdit(r.Sub("bad", 0), nStages, nParts)
	for k := uint64(1); k < 50; k++ { // the offending key must not repeat a valid one (a later duplicate would simply win)
		dup := false
		for _, ed := range edits {
			if ed.Name == bad.Name && ed.Stage == bad.Stage && ed.Part == bad.Part {
				dup = true
			}
		}
		if !dup {
			break
		}
		bad = genInvalidEdit(r.Sub("bad", k), nStages, nParts)
	}
	// the edited copy
	orig, err := os.ReadFile(filepath.Join(env.ParamDir, fname))
	if err != nil {
		res.Status, res.Note = "invalid", err.Error()
		return res
	}
	content := string(orig)
	for _, ed := range edits {
		if yml {
			content, err = editYml(content, ed)
		} else {
			content, err = editClassic(content, ed)
		}
		if err != nil {
			res.Status, res.Note = "invalid", "edit "+ed.arg()+" of "+fname+": "+err.Error()
			return res
		}
	}
	os.WriteFile(filepath.Join(root, "param2", fname), []byte(content), 0o644)
	var editArgs []string
	for _, ed := range edits {
		editArgs = append(editArgs, ed.arg())
	}
	// a quarter of the scenarios: the original parameter folder is a copy too, and the crop file vanishes from it once the
	// session has loaded it (a clean-up, an unmounted share); the session holds its content, every line still gets it
	vanish := r.Bool(0.25) || sc.Params["vanish"] == "1"
	var base []string
	if vanish {
		if err := copyDir(env.ParamDir, filepath.Join(root, "param1")); err != nil {
			res.Status, res.Note = "invalid", err.Error()
			return res
		}
		base = []string{"parameter=param1"}
	}
	sc.Lines[0].Extra = append([]string{}, base...)
	sc.Lines[1].Extra = append(append(append([]string{}, base...), "CropFile="+fname), editArgs...)
	sc.Lines[2].Extra = []string{"parameter=param2"}
	sc.Lines[3].Extra = append(append(append(append([]string{}, base...), "CropFile="+fname), editArgs...), bad.arg())
	if r.Bool(0.5) { // position of the offending value among the valid ones
		ex := sc.Lines[3].Extra
		k := 1 + len(base)
		ex[k], ex[len(ex)-1] = ex[len(ex)-1], ex[k]
	}
	// a fifth line: the same overrides with every decimal value moved in its seventh decimal place (values that agree
	// to six decimals are still different values)
	sc.Lines = sc.Lines[:4]
	var nearArgs []string
	nudged := false
	for _, ed := range edits {
		if k := strings.IndexByte(ed.Val, '.'); k >= 0 && len(ed.Val)-k-1 <= 5 && !strings.ContainsAny(ed.Val, "eE") {
			ed.Val = ed.Val + strings.Repeat("0", 6-(len(ed.Val)-k-1)) + "4"
			nudged = true
		}
		nearArgs = append(nearArgs, ed.arg())
	}
	if nudged {
		sc.Lines = append(sc.Lines, BatchLine{World: sc.Lines[1].World, Extra: append(append(append([]string{}, base...), "CropFile="+fname), nearArgs...)})
	}
	var lines []string
	for i := range sc.Lines {
		lines = append(lines, sc.lineText(i))
	}
	// solo references (fresh processes): the baseline line and the near-equal override line
	ref0 := freshReference(env, root, sc.lineArgs(0), outIDOf(sc, 0))
	var ref4 *lineRef
	if nudged {
		ref4 = freshReference(env, root, sc.lineArgs(4), outIDOf(sc, 4))
	}
	disk := NewSimDisk()
	sched := sc.Sched
	if vanish {
		target := filepath.Join(root, "param1", fname)
		probe := env.RunBatch(root, lines, sc.Sched, NewSimDisk(), true, 0, -1, 0)
		loaded := -1
		for _, rel := range probe.Released {
			if rel.Point == "pool.get" && rel.Detail == target {
				loaded = rel.Dec
				break
			}
		}
		if loaded >= 0 && probe.Panic == "" && probe.Deadlock == "" {
			at := loaded + 1 + r.Intn(4)
			sp := *sc.Sched
			sp.Decisions, sp.Policy = probe.Decisions, ""
			sched = &sp
			gone := false
			batchFaultHook = func(k int) {
				if k >= at && !gone {
					gone = true
					os.Rename(target, target+".gone")
				}
			}
			defer func() { batchFaultHook = nil }()
			res.add("fault.crop-file-vanishes-after-its-first-load", 1)
		}
	}
	out := env.RunBatch(root, lines, sched, disk, true, 0, -1, 0)
	batchFaultHook = nil
	res.add("batches", 1)
	res.add("decisions", float64(len(out.Decisions)))
	if out.MaxParked >= 2 {
		res.add("reach.interleaved", 1)
	}
	res.Hash = out.TraceHash + fname + strings.Join(editArgs, " ")
	res.Digest = fmt.Sprintf("%s:%d:%s", out.TraceHash, len(out.Decisions), disk.Digest())
	viol := func(oracle, class, detail string) {
		res.Violations = append(res.Violations, Violation{Prop: "C18", Oracle: oracle, Class: class, Detail: detail})
	}
	if out.Panic != "" || out.Deadlock != "" || out.DecisionCap {
		viol("termination", "batch-did-not-complete", firstLine(out.Panic+out.Deadlock))
	}
	rep := parseDispatcher(out.Stdout)
	if rep.NumErrors > 0 {
		res.Status, res.Note = "invalid", "a line of the batch failed: "+strings.Join(rep.ErrorLines, " | ")
		return res
	}
	id := func(i int) string { return fmt.Sprintf("L%02d", i) }
	get := func(i int) map[string][]byte { return outputsOf(disk, outIDOf(sc, i)) }
	kinds := ""
	for _, ed := range edits {
		kinds += ed.Name + " "
	}
	if d := diffFilesRenamed(get(1), get(2), id(1), id(2)); d != "" {
		viol("override-equals-edit", "override-differs-from-file-edit:"+strings.Fields(kinds)[0], fmt.Sprintf("crop file %s, override %s: the run with the override on the line and the run on the edited copy differ: %s", fname, strings.Join(editArgs, " "), d))
	}
	if d := diffFilesRenamed(get(0), get(3), id(0), id(3)); d != "" {
		viol("rejection", "rejected-override-changed-the-run", fmt.Sprintf("crop file %s: override %s contains the out-of-range %s and must be rejected as a whole, yet the run differs from the run without overrides: %s", fname, strings.Join(sc.Lines[3].Extra[1:], " "), bad.arg(), d))
	}
	if d := diffFilesRenamed(get(0), get(1), id(0), id(1)); d != "" {
		res.add("reach.override-changes-results", 1)
	}
	// no override of another line of the session reaches a line: the baseline equals its run alone in a fresh process,
	// and so does the line whose override values differ from line 2's only in the seventh decimal
	if ref0 != nil && !ref0.died && ref0.crashed == "" && ref0.success {
		if d := diffFiles(ref0.files, get(0)); d != "" {
			viol("session-isolation", "line-without-override-differs-from-its-solo-run", fmt.Sprintf("crop file %s: the line without any override, run in one session with lines overriding %s, differs from the same line run alone: %s", fname, strings.Join(editArgs, " "), d))
		}
		res.add("reach.baseline-solo-reference", 1)
	}
	if ref4 != nil && !ref4.died && ref4.crashed == "" && ref4.success {
		if d := diffFiles(ref4.files, get(4)); d != "" {
			viol("session-isolation", "near-equal-override-differs-from-its-solo-run", fmt.Sprintf("crop file %s: override %s (agrees with %s to six decimals) in one session with that line differs from the same line run alone: %s", fname, strings.Join(nearArgs, " "), strings.Join(editArgs, " "), d))
		}
		res.add("reach.near-equal-override-line", 1)
		if d := diffFilesRenamed(get(1), get(4), id(1), id(4)); d != "" {
			res.add("reach.near-equal-override-changes-results", 1)
		}
	}
	for _, ed := range edits {
		res.add("param."+ed.Name, 1)
	}
	if yml {
		res.add("format.yml", 1)
	} else {
		res.add("format.classic", 1)
	}
	res.add("crop."+e.Crop, 1)
	if len(res.Violations) > 0 {
		res.Status = "violation"
	}
	res.WallMS = nowMS(t0)
	return res
}

func parseEdits(s string) []cropEdit {
	var out []cropEdit
	for _, a := range strings.Fields(s) {
		k := strings.IndexByte(a, '=')
		if k < 0 || !strings.HasPrefix(a, "c_") {
			continue
		}
		parts := strings.Split(a[2:k], "_")
		e := cropEdit{Name: parts[0], Val: a[k+1:]}
		if len(parts) > 1 {
			e.Stage, _ = strconv.Atoi(parts[1])
		}
		if len(parts) > 2 {
			e.Part, _ = strconv.Atoi(parts[2])
		}
		out = append(out, e)
	}
	return out
}

func init() {
	register(&CheckDef{
		Prop: "C18", Level: "exploration",
		Gen:  genC18,
		Exec: execC18,
		Quick: 390, Thorough: 12000,
		Chunk:       5,
		MaxBadShare: 0.2,
		NonTrivial:  func(res *Result) bool { return res.Status == "ok" && res.Stats["reach.override-changes-results"] > 0 },
		Rule:        "one batch scenario per evaluation: four lines of one generated project in one session under the seeded scheduler — baseline, 1-3 crop-parameter overrides on the line, the same values edited into a copy of the crop parameter file (classic or YAML, selected through the parameter-folder argument), and the overrides plus one out-of-range value; the crop file rotates over every shipped annual crop (varieties included), the parameters over every overridable base, per-stage and per-organ kind; a fifth line repeats the overrides with every decimal value moved in its seventh decimal place; oracles: streams of line 2 and 3 byte-identical (after renaming the output id), streams of line 4 identical to the baseline, the baseline line and the fifth line byte-identical to the same line run alone in a fresh process; non-trivial = the override changed the results",
		ReachKeys:   []string{"reach.override-changes-results", "reach.interleaved", "reach.baseline-solo-reference", "fault.crop-file-vanishes-after-its-first-load", "reach.near-equal-override-line", "reach.near-equal-override-changes-results", "format.yml", "format.classic", "param.TSUM", "param.MAXAMAX", "param.PRO", "param.DEAD", "param.KC"},
		Assumptions: []string{
			"the value is written with the same decimal text on the line and into the file",
			"classic files: YIFAK (shares its field with the organ number) and PRO pairs are edited in YAML files only",
		},
	})
}
