package main

// Orchestrator: partitions scenario indices over worker processes, collects
// results, handles worker deaths and hangs, classifies violations against the
// known-findings file, minimises, writes replay files and evidence.

import (
	"bufio"
	"bytes"
	"encoding/json"
	"fmt"
	"os"
	"os/exec"
	"path/filepath"
	"sort"
	"strings"
	"sync"
	"syscall"
	"time"
)

type KnownFinding struct {
	Property string `json:"property"`
	ID       string `json:"id"`
	Status   string `json:"status"` // known | fixed
	Oracle   string `json:"oracle"`
	Class    string `json:"class"`
	Text     string `json:"text"`
	Witness  string `json:"witness,omitempty"`
	Commit   string `json:"commit,omitempty"`
}

func verifRoot() string {
	if v := os.Getenv("VERIF_ROOT"); v != "" {
		return v
	}
	return "/verif"
}

// outRoot is where evidence and replay files go (VERIF_OUT_ROOT lets runs against scratch trees keep /verif clean).
func outRoot() string {
	if v := os.Getenv("VERIF_OUT_ROOT"); v != "" {
		return v
	}
	return verifRoot()
}

func loadKnown() []KnownFinding {
	b, err := os.ReadFile(filepath.Join(verifRoot(), "known_findings.json"))
	if err != nil {
		return nil
	}
	var k struct {
		Findings []KnownFinding `json:"findings"`
	}
	if json.Unmarshal(b, &k) != nil {
		return nil
	}
	return k.Findings
}

func matchKnown(kf []KnownFinding, v *Violation) *KnownFinding {
	for i := range kf {
		k := &kf[i]
		if k.Status == "known" && k.Property == v.Prop && k.Class == v.Class && (k.Oracle == "" || k.Oracle == v.Oracle) {
			return k
		}
	}
	return nil
}

type workerJob struct {
	from, to int
}

func workerBin(cd *CheckDef, race bool) string {
	if race {
		if p := os.Getenv("VERIF_WORKER_RACE"); p != "" {
			return p
		}
	}
	return os.Args[0]
}

func runWorkerProc(bin string, envs []string, timeout time.Duration) (stderr string, exitCode int, timedOut bool) {
	cmd := exec.Command(bin, "-test.run", "^TestVerif$", "-test.timeout", "0")
	cmd.Env = append(os.Environ(), envs...)
	var eb bytes.Buffer
	cmd.Stderr = &eb
	cmd.Stdout = &eb
	if err := cmd.Start(); err != nil {
		return err.Error(), 2, false
	}
	done := make(chan error, 1)
	go func() { done <- cmd.Wait() }()
	select {
	case err := <-done:
		code := 0
		if err != nil {
			code = 1
			if ee, ok := err.(*exec.ExitError); ok {
				code = ee.ExitCode()
			}
		}
		if code == exitHang {
			return tail2(eb.String(), 4<<20), code, false // the whole goroutine dump is needed to classify the hang
		}
		return tail(eb.String(), 6000), code, false
	case <-time.After(timeout):
		cmd.Process.Signal(syscall.SIGQUIT)
		select {
		case <-done:
		case <-time.After(5 * time.Second):
			cmd.Process.Kill()
			<-done
		}
		return tail2(eb.String(), 4<<20), -1, true
	}
}

func tail(s string, n int) string {
	if len(s) > n {
		return s[len(s)-n:]
	}
	return s
}
func tail2(s string, n int) string {
	if len(s) > n {
		return s[:n]
	}
	return s
}

func readResults(path string) (results []*Result, lastStart int) {
	lastStart = -1
	f, err := os.Open(path)
	if err != nil {
		return nil, -1
	}
	defer f.Close()
	sc := bufio.NewScanner(f)
	sc.Buffer(make([]byte, 1<<20), 1<<28)
	for sc.Scan() {
		line := sc.Bytes()
		if bytes.HasPrefix(line, []byte("{\"start\":")) {
			var s struct {
				Start int `json:"start"`
			}
			if json.Unmarshal(line, &s) == nil {
				lastStart = s.Start
			}
			continue
		}
		var r Result
		if json.Unmarshal(line, &r) == nil {
			rr := r
			results = append(results, &rr)
		}
	}
	return
}

type aggregate struct {
	mu         sync.Mutex
	results    int
	status     map[string]int
	stats      map[string]float64
	hashes     map[string]bool
	nontrivial map[string]bool
	viols      []foundViolation
	samples    []json.RawMessage
	notes      map[string]int
	wallMS     float64
	deaths     []string
}

type foundViolation struct {
	idx int
	v   Violation
	sc  json.RawMessage
}

func (a *aggregate) add(cd *CheckDef, r *Result) {
	a.mu.Lock()
	defer a.mu.Unlock()
	a.results++
	a.status[r.Status]++
	if r.Status == "crash" && a.status["crash"] <= 10 {
		fmt.Fprintf(os.Stderr, "CRASH: scenario %d: %s\n", r.Idx, r.Note)
	}
	for k, v := range r.Stats {
		a.stats[k] += v
	}
	if r.Hash != "" {
		a.hashes[r.Hash] = true
		if cd.NonTrivial == nil || cd.NonTrivial(r) {
			a.nontrivial[r.Hash] = true
		}
	}
	if r.Note != "" {
		n := r.Note
		if len(n) > 120 {
			n = n[:120]
		}
		a.notes[r.Status+": "+n]++
	}
	a.wallMS += r.WallMS
	if r.Harness != "" {
		a.deaths = append(a.deaths, fmt.Sprintf("scenario %d: %s", r.Idx, r.Harness))
	}
	for _, v := range r.Violations {
		a.viols = append(a.viols, foundViolation{r.Idx, v, r.Sample})
	}
	if len(a.samples) < 3 && r.Sample != nil && r.Status != "violation" {
		a.samples = append(a.samples, r.Sample)
	}
}

func orchestrate() int {
	t0 := time.Now()
	prop := os.Getenv("VERIF_PROP")
	if prop == "selftest-determinism" {
		return selftestDeterminism()
	}
	cd := checks[prop]
	if cd == nil {
		fmt.Fprintln(os.Stderr, "unknown property", prop)
		return 2
	}
	if rp := os.Getenv("VERIF_REPLAY"); rp != "" {
		return replayMain(cd, rp)
	}
	if di := os.Getenv("VERIF_DUMP_IDX"); di != "" {
		t := os.Getenv("VERIF_TIER")
		if t == "" {
			t = "quick"
		}
		os.Stdout.Write(scenarioFor2(cd, envU64("VERIF_SEED", 1), envInt("VERIF_DUMP_IDX", 0), t))
		fmt.Println()
		return 0
	}
	tier := os.Getenv("VERIF_TIER")
	if tier == "" {
		tier = "quick"
	}
	seed := envU64("VERIF_SEED", 1)
	fmt.Printf("VERIF_SEED=%d property=%s tier=%s\n", seed, prop, tier)
	total := cd.Quick
	if tier == "thorough" {
		total = cd.Thorough
	}
	if n := envInt("VERIF_N", 0); n > 0 {
		total = n
	}
	genTotal, genRaceFrac = total, cd.RaceFrac
	raceStart := raceFrom(total, cd.RaceFrac)
	workers := envInt("VERIF_WORKERS", 16)
	chunk := cd.Chunk
	if chunk == 0 {
		chunk = 20
	}
	if tier == "thorough" && chunk < 50 && cd.Chunk == 0 {
		chunk = 50
	}
	tmp, err := os.MkdirTemp("", "vorch-")
	if err != nil {
		fmt.Fprintln(os.Stderr, err)
		return 2
	}
	defer os.RemoveAll(tmp)
	known := loadKnown()

	agg := &aggregate{status: map[string]int{}, stats: map[string]float64{}, hashes: map[string]bool{}, nontrivial: map[string]bool{}, notes: map[string]int{}}
	jobs := make(chan workerJob, 1024)
	var wg sync.WaitGroup
	var harnessTrouble []string
	var htMu sync.Mutex
	budgetS := 300
	if cd.TimeoutS > 0 {
		budgetS = cd.TimeoutS
	}
	budget := time.Duration(envInt("VERIF_CHUNK_TIMEOUT_S", budgetS)) * time.Second
	deadline := time.Time{}
	if s := envInt("VERIF_BUDGET_S", 0); s > 0 {
		deadline = t0.Add(time.Duration(s) * time.Second)
	}
	for wi := 0; wi < workers; wi++ {
		wg.Add(1)
		go func(wi int) {
			defer wg.Done()
			for job := range jobs {
				if !deadline.IsZero() && time.Now().After(deadline) {
					continue
				}
				from := job.from
				for from < job.to {
					out := filepath.Join(tmp, fmt.Sprintf("w%d-%d.jsonl", wi, from))
					envs := []string{"VERIF_MODE=worker", "VERIF_PROP=" + prop, fmt.Sprintf("VERIF_SEED=%d", seed), "VERIF_TIER=" + tier,
						fmt.Sprintf("VERIF_FROM=%d", from), fmt.Sprintf("VERIF_TO=%d", job.to), "VERIF_OUT=" + out, "VERIF_SCRATCH=" + tmp,
						fmt.Sprintf("VERIF_TOTAL=%d", total), "GORACE=halt_on_error=1 exitcode=66"}
					bin := workerBin(cd, cd.NeedsRace || from >= raceStart)
					stderr, code, timedOut := runWorkerProc(bin, envs, budget)
					results, lastStart := readResults(out)
					os.Remove(out)
					doneIdx := map[int]bool{}
					for _, r := range results {
						agg.add(cd, r)
						doneIdx[r.Idx] = true
					}
					if code == 0 && !timedOut {
						break
					}
					// the worker died or hung while executing lastStart
					if lastStart < 0 || doneIdx[lastStart] {
						htMu.Lock()
						harnessTrouble = append(harnessTrouble, fmt.Sprintf("worker for [%d,%d) exited %d outside a scenario: %s", from, job.to, code, tail(stderr, 400)))
						htMu.Unlock()
						break
					}
					r := classifyDeath(cd, prop, seed, tier, lastStart, stderr, code, timedOut || code == exitHang)
					agg.add(cd, r)
					from = lastStart + 1
				}
			}
		}(wi)
	}
	for f := 0; f < total; {
		t := f + chunk
		if t > total {
			t = total
		}
		if f < raceStart && t > raceStart {
			t = raceStart // a chunk never straddles the boundary of the race stratum
		}
		jobs <- workerJob{f, t}
		f = t
	}
	close(jobs)
	wg.Wait()

	// ---- classify violations
	exit := 0
	type group struct {
		v     Violation
		count int
		first foundViolation
	}
	groups := map[string]*group{}
	var order []string
	sort.Slice(agg.viols, func(i, j int) bool { return agg.viols[i].idx < agg.viols[j].idx })
	for _, fv := range agg.viols {
		key := fv.v.Oracle + "|" + fv.v.Class
		g := groups[key]
		if g == nil {
			g = &group{v: fv.v, first: fv}
			groups[key] = g
			order = append(order, key)
		}
		g.count++
	}
	knownHit := map[string]int{}
	var reported []map[string]interface{}
	nrep := 0
	for _, key := range order {
		g := groups[key]
		if k := matchKnown(known, &g.v); k != nil {
			knownHit[k.ID] += g.count
			continue
		}
		if nrep >= 5 {
			continue
		}
		nrep++
		exit = 1
		path := writeReplay(cd, g.first, tier, seed)
		fmt.Printf("VIOLATION property=%s replay=%s\n", prop, path)
		fmt.Printf("  oracle=%s class=%s day=%s scenarios=%d first_idx=%d\n  %s\n", g.v.Oracle, g.v.Class, g.v.Day, g.count, g.first.idx, g.v.Detail)
		reported = append(reported, map[string]interface{}{"oracle": g.v.Oracle, "class": g.v.Class, "count": g.count, "replay": path, "detail": g.v.Detail})
	}
	// known findings: replay witnesses, print KNOWN-FINDING lines
	knownOut := []map[string]interface{}{}
	for i := range known {
		k := &known[i]
		if k.Property != prop || k.Status != "known" {
			continue
		}
		still := knownHit[k.ID] > 0
		if !still && k.Witness != "" {
			still = witnessStillViolates(cd, k)
		}
		if still {
			fmt.Printf("KNOWN-FINDING: property=%s %s [%s] (seen in %d scenarios of this run)\n", prop, k.Text, k.ID, knownHit[k.ID])
		}
		knownOut = append(knownOut, map[string]interface{}{"id": k.ID, "class": k.Class, "still_violates": still, "scenarios_this_run": knownHit[k.ID]})
	}
	harnessTrouble = append(harnessTrouble, agg.deaths...)
	if len(harnessTrouble) > 0 {
		for _, h := range harnessTrouble {
			fmt.Fprintln(os.Stderr, "HARNESS:", h)
		}
		if exit == 0 {
			exit = 2
		}
	}
	// generator health: a population that mostly fails to run proves nothing
	if bad := agg.status["crash"] + agg.status["invalid"]; agg.results > 0 && float64(bad) > maxBadShare(cd)*float64(agg.results) {
		fmt.Fprintf(os.Stderr, "SELFTEST: %d of %d scenarios crashed or were rejected as invalid input (limit %.0f%%); top notes:\n", bad, agg.results, 100*maxBadShare(cd))
		n := 0
		for k, v := range agg.notes {
			if n < 5 {
				fmt.Fprintf(os.Stderr, "  %dx %s\n", v, k)
			}
			n++
		}
		if exit == 0 {
			exit = 2
		}
	}
	// reach self-test (thorough tier only): a probe stuck at zero means the workload must change
	var stuck []string
	if tier == "thorough" && os.Getenv("VERIF_N") == "" {
		for _, k := range cd.ReachKeys {
			if agg.stats[k] == 0 {
				stuck = append(stuck, k)
			}
		}
		if len(stuck) > 0 && exit == 0 {
			fmt.Fprintf(os.Stderr, "SELFTEST: reach probes stuck at zero: %v\n", stuck)
			exit = 2
		}
	}
	wall := time.Since(t0).Seconds()
	writeEvidence(cd, tier, seed, agg, wall, reported, knownOut, stuck, exit)
	fmt.Printf("property=%s tier=%s seed=%d scenarios=%d ok=%d invalid=%d crash=%d violation_scenarios=%d distinct=%d nontrivial=%d wall=%.1fs exit=%d\n",
		prop, tier, seed, agg.results, agg.status["ok"], agg.status["invalid"], agg.status["crash"], agg.status["violation"], len(agg.hashes), len(agg.nontrivial), wall, exit)
	return exit
}

// classifyDeath re-runs the scenario that killed a worker, alone, and turns the
// death into a result.
func classifyDeath(cd *CheckDef, prop string, seed uint64, tier string, idx int, stderr string, code int, timedOut bool) *Result {
	sc := scenarioFor2(cd, seed, idx, tier)
	r := &Result{Idx: idx, Status: "crash", Hash: fmt.Sprintf("death-%d", idx)}
	what := fmt.Sprintf("worker exit %d", code)
	if timedOut {
		what = "worker hung (no progress within the chunk budget)"
	}
	r.Note = what + ": " + firstLine(lastNonEmpty(stderr))
	r.Sample = sc
	if h := deathHandlers[prop]; h != nil {
		h(r, stderr, code, timedOut)
	}
	if timedOut && len(r.Violations) == 0 && runningModelFrame(stderr) == "" {
		// nothing was executing model code: the released run is blocked on a lock that a parked run holds
		// (e.g. a cache guarded by a mutex around a pooled-file Get). Quiescence detection cannot see a mutex wait;
		// the scenario is executed once more at coarse granularity (no parking at pooled-file Gets).
		var s2 Scenario
		if sc != nil && json.Unmarshal(sc, &s2) == nil && s2.Sched != nil && !s2.Sched.NoPoolYield {
			s2.Sched.NoPoolYield = true
			s2.Sched.Decisions = nil
			if r2, _ := runOne(cd, &s2, 3*time.Minute); r2 != nil && r2.Status != "crash" {
				r2.Idx = idx
				r2.add("fault.coarse-retry-after-lock-wait", 1)
				r2.Sample = s2.JSON()
				return r2
			}
		}
	}
	return r
}

// deathHandlers lets a check turn a process death into a violation (C11: every run terminates with an error attributed to its own line).
var deathHandlers = map[string]func(r *Result, stderr string, code int, timedOut bool){}

func scenarioFor2(cd *CheckDef, seed uint64, idx int, tier string) json.RawMessage {
	defer func() { recover() }()
	if paramTables == nil {
		if pt, err := LoadParamTables(filepath.Join(repoRoot(), "examples", "parameter")); err == nil {
			paramTables = pt
		}
	}
	return scenarioFor(cd, seed, idx, tier).JSON()
}

func repoRoot() string {
	if v := os.Getenv("REPO_ROOT"); v != "" {
		return v
	}
	return "/repo"
}

func firstLine(s string) string {
	if i := strings.IndexByte(s, '\n'); i >= 0 {
		return s[:i]
	}
	return s
}

func lastNonEmpty(s string) string {
	lines := strings.Split(strings.TrimSpace(s), "\n")
	for i := len(lines) - 1; i >= 0; i-- {
		l := strings.TrimSpace(lines[i])
		if l != "" && l != "FAIL" && !strings.HasPrefix(l, "exit status") {
			return l
		}
	}
	return ""
}

func writeReplay(cd *CheckDef, fv foundViolation, tier string, seed uint64) string {
	dir := filepath.Join(outRoot(), "replays")
	os.MkdirAll(dir, 0o755)
	var sc Scenario
	if fv.sc != nil {
		json.Unmarshal(fv.sc, &sc)
	} else {
		if b := scenarioFor2(cd, seed, fv.idx, tier); b != nil {
			json.Unmarshal(b, &sc)
		}
	}
	v := fv.v
	sc.Expect = &v
	min := minimise(cd, &sc)
	if min.Kind == "batch" && min.Sched != nil && len(min.Sched.Overlap) == 0 {
		// make the replay file self-describing: record the decision sequence of the minimised schedule
		rec := cloneScenario(min)
		if rec.Params == nil {
			rec.Params = map[string]string{}
		}
		rec.Params["record"] = "1"
		if r, _ := runOne(cd, rec, 2*time.Minute, "VERIF_EMIT_DECISIONS=1"); r != nil && len(r.Decisions) > 0 && len(r.Decisions) <= 20000 {
			if hasClass(r, v.Oracle, v.Class) != nil {
				min.Sched.Decisions = r.Decisions
			}
		}
	}
	h := uint64(1469598103934665603)
	for _, c := range []byte(v.Oracle + v.Class + fmt.Sprint(seed, fv.idx)) {
		h ^= uint64(c)
		h *= 1099511628211
	}
	path := filepath.Join(dir, fmt.Sprintf("%s-%012x.json", cd.Prop, h&0xffffffffffff))
	os.WriteFile(path, min.JSON(), 0o644)
	return path
}

// runOne executes one scenario in a fresh process and returns its result.
func runOne(cd *CheckDef, sc *Scenario, timeout time.Duration, extraEnv ...string) (*Result, string) {
	tmp, err := os.MkdirTemp("", "vone-")
	if err != nil {
		return nil, err.Error()
	}
	defer os.RemoveAll(tmp)
	in := filepath.Join(tmp, "sc.json")
	out := filepath.Join(tmp, "res.json")
	os.WriteFile(in, sc.JSON(), 0o644)
	bin := workerBin(cd, cd.NeedsRace || (sc.Sched != nil && sc.Sched.Race))
	stderr, code, timedOut := runWorkerProc(bin, append([]string{"VERIF_MODE=one", "VERIF_SCENARIO=" + in, "VERIF_OUT=" + out, "VERIF_SCRATCH=" + tmp, "GORACE=halt_on_error=1 exitcode=66"}, extraEnv...), timeout)
	b, err := os.ReadFile(out)
	if err != nil {
		r := &Result{Idx: sc.Idx, Status: "crash", Note: fmt.Sprintf("exit %d timeout=%v: %s", code, timedOut, firstLine(lastNonEmpty(stderr)))}
		if h := deathHandlers[cd.Prop]; h != nil {
			h(r, stderr, code, timedOut || code == exitHang)
		}
		return r, stderr
	}
	var r Result
	if json.Unmarshal(b, &r) != nil {
		return nil, "unreadable result"
	}
	return &r, stderr
}

func hasClass(r *Result, oracle, class string) *Violation {
	if r == nil {
		return nil
	}
	for i := range r.Violations {
		if r.Violations[i].Class == class && (oracle == "" || r.Violations[i].Oracle == oracle) {
			return &r.Violations[i]
		}
	}
	return nil
}

func replayMain(cd *CheckDef, path string) int {
	b, err := os.ReadFile(path)
	if err != nil {
		fmt.Fprintln(os.Stderr, err)
		return 2
	}
	var sc Scenario
	if err := json.Unmarshal(b, &sc); err != nil {
		fmt.Fprintln(os.Stderr, err)
		return 2
	}
	r, stderr := runOne(cd, &sc, oneTimeout(cd))
	if r == nil {
		fmt.Fprintln(os.Stderr, "replay failed to execute:", stderr)
		return 2
	}
	if sc.Expect != nil {
		if v := hasClass(r, sc.Expect.Oracle, sc.Expect.Class); v != nil {
			same := v.Day == sc.Expect.Day
			fmt.Printf("VIOLATION property=%s replay=%s\n  reproduced oracle=%s class=%s day=%s (same day as recorded: %v)\n  %s\n", cd.Prop, path, v.Oracle, v.Class, v.Day, same, v.Detail)
			return 1
		}
		fmt.Printf("replay: expected violation %s/%s not reproduced (status %s, %d other violations)\n", sc.Expect.Oracle, sc.Expect.Class, r.Status, len(r.Violations))
		for _, v := range r.Violations {
			fmt.Printf("  other: %s/%s %s\n", v.Oracle, v.Class, v.Detail)
		}
		return 0
	}
	for _, v := range r.Violations {
		fmt.Printf("VIOLATION property=%s replay=%s\n  oracle=%s class=%s day=%s\n  %s\n", cd.Prop, path, v.Oracle, v.Class, v.Day, v.Detail)
	}
	if len(r.Violations) > 0 {
		return 1
	}
	fmt.Printf("replay: no violation (status %s %s)\n", r.Status, r.Note)
	return 0
}

func witnessStillViolates(cd *CheckDef, k *KnownFinding) bool {
	p := k.Witness
	if !filepath.IsAbs(p) {
		p = filepath.Join(verifRoot(), p)
	}
	b, err := os.ReadFile(p)
	if err != nil {
		return false
	}
	var sc Scenario
	if json.Unmarshal(b, &sc) != nil {
		return false
	}
	r, _ := runOne(cd, &sc, oneTimeout(cd))
	return hasClass(r, k.Oracle, k.Class) != nil
}

func writeEvidence(cd *CheckDef, tier string, seed uint64, agg *aggregate, wall float64, reported []map[string]interface{}, known []map[string]interface{}, stuck []string, exit int) {
	stats := map[string]float64{}
	for k, v := range agg.stats {
		stats[k] = v
	}
	reach := map[string]float64{}
	faults := map[string]float64{}
	other := map[string]float64{}
	for k, v := range stats {
		switch {
		case strings.HasPrefix(k, "reach."):
			reach[k[6:]] = v
		case strings.HasPrefix(k, "fault."):
			faults[k[6:]] = v
		default:
			other[k] = v
		}
	}
	samples := []interface{}{}
	for _, s := range agg.samples {
		var x interface{}
		if json.Unmarshal(s, &x) == nil {
			samples = append(samples, x)
		}
	}
	if len(samples) == 0 {
		samples = append(samples, map[string]string{"note": "no completed scenario carried a sample"})
	}
	notes := map[string]int{}
	keys := make([]string, 0, len(agg.notes))
	for k := range agg.notes {
		keys = append(keys, k)
	}
	sort.Slice(keys, func(i, j int) bool { return agg.notes[keys[i]] > agg.notes[keys[j]] })
	for i, k := range keys {
		if i >= 15 {
			break
		}
		notes[k] = agg.notes[k]
	}
	nviol := 0
	for _, r := range reported {
		nviol += r["count"].(int)
	}
	perHour := 0.0
	if wall > 0 {
		perHour = float64(agg.results) / wall * 3600
	}
	ev := map[string]interface{}{
		"property_id": cd.Prop,
		"tier":        tier,
		"seed":        int64(seed),
		"level":       cd.Level,
		"coverage": map[string]interface{}{
			"evaluations":         agg.results,
			"distinct_nontrivial": len(agg.nontrivial),
			"distinct":            len(agg.hashes),
			"rule":                cd.Rule,
			"samples":             samples,
			"status_counts":       agg.status,
			"scenarios_per_hour":  perHour,
			"simulated_days":      stats["days"],
			"simulated_years":     stats["days"] / 365.25,
			"substeps_executed":   stats["substeps"],
			"faults_fired":        faults,
			"reach_probes":        reach,
			"counters":            other,
			"invalid_or_crash_notes": notes,
			"reach_probes_stuck":  stuck,
			"violations_reported": reported,
			"known_findings":      known,
			"components":          componentsOf(cd),
			"exit":                exit,
		},
		"assumptions": cd.Assumptions,
		"wall_s":      wall,
		"violations":  nviol,
	}
	b, _ := json.MarshalIndent(ev, "", " ")
	dir := filepath.Join(outRoot(), "evidence")
	os.MkdirAll(dir, 0o755)
	os.WriteFile(filepath.Join(dir, cd.Prop+".json"), b, 0o644)
}

func maxBadShare(cd *CheckDef) float64 {
	if cd.MaxBadShare > 0 {
		return cd.MaxBadShare
	}
	return 0.10
}

func oneTimeout(cd *CheckDef) time.Duration {
	if cd.TimeoutS > 0 {
		return time.Duration(cd.TimeoutS) * time.Second
	}
	return 10 * time.Minute
}

// runningModelFrame inspects a SIGQUIT goroutine dump: if a goroutine that is
// running or runnable (not blocked) is inside package hermes, the file of its
// innermost hermes frame is returned.
func runningModelFrame(dump string) string {
	for _, blk := range strings.Split(dump, "\n\n") {
		hdr := firstLine(strings.TrimSpace(blk))
		// running or runnable inside the model, or asleep inside it (time.Sleep in a retry / back-off loop that has outlived
		// the time limit by orders of magnitude; the shipped model never sleeps)
		if !strings.HasPrefix(hdr, "goroutine ") || !(strings.Contains(hdr, "[running") || strings.Contains(hdr, "[runnable") || strings.Contains(hdr, "[sleep")) {
			continue
		}
		for _, l := range strings.Split(blk, "\n") {
			l = strings.TrimSpace(l)
			if k := strings.Index(l, "/hermes/"); k >= 0 && strings.Contains(l, ".go:") && !strings.Contains(l, "/src/hermes2go/") {
				w := l[k+1:]
				if sp := strings.IndexByte(w, ' '); sp > 0 {
					w = w[:sp]
				}
				if i := strings.LastIndexByte(w, ':'); i > 0 {
					w = w[:i]
				}
				return w
			}
		}
	}
	return ""
}

// selftestDeterminism: the same scenario executed in separate processes at GOMAXPROCS 1, 4 and 16, twice each,
// must give the same observations (status, violations, counters, digest of all recorded streams and decisions).
// Overlap-window scenarios (real parallelism inside a window) are compared on status and violations only.
func selftestDeterminism() int {
	t0 := time.Now()
	n := envInt("VERIF_N", 4)
	seeds := []uint64{envU64("VERIF_SEED", 1), envU64("VERIF_SEED", 1) + 1000}
	tier := "quick"
	var props []string
	for p := range checks {
		props = append(props, p)
	}
	sort.Strings(props)
	if only := os.Getenv("VERIF_ONLY"); only != "" {
		props = strings.Split(only, ",")
	}
	type job struct {
		prop string
		seed uint64
		idx  int
	}
	var jobs []job
	for _, p := range props {
		cd := checks[p]
		if cd == nil {
			fmt.Fprintln(os.Stderr, "unknown property", p)
			return 2
		}
		total := cd.Quick
		for _, sd := range seeds {
			for k := 0; k < n; k++ {
				jobs = append(jobs, job{p, sd, (k * 7919) % total})
			}
			if cd.RaceFrac > 0 { // one scenario of the overlap stratum as well
				jobs = append(jobs, job{p, sd, total - 1})
			}
		}
	}
	var mu sync.Mutex
	bad := 0
	runs := 0
	// scenarios are generated up front, sequentially (the generator reads per-check globals)
	scen := make([]*Scenario, len(jobs))
	for i, j := range jobs {
		cd := checks[j.prop]
		genTotal, genRaceFrac = cd.Quick, cd.RaceFrac
		raw := scenarioFor2(cd, j.seed, j.idx, tier)
		var sc Scenario
		if raw == nil || json.Unmarshal(raw, &sc) != nil {
			bad++
			fmt.Printf("SELFTEST: %s seed %d idx %d: scenario could not be generated\n", j.prop, j.seed, j.idx)
			continue
		}
		if raw2 := scenarioFor2(cd, j.seed, j.idx, tier); string(raw2) != string(raw) {
			bad++
			fmt.Printf("NONDETERMINISM: %s seed %d idx %d: the generator produced two different scenarios\n", j.prop, j.seed, j.idx)
		}
		scen[i] = &sc
	}
	sem := make(chan struct{}, envInt("VERIF_WORKERS", 8))
	var wg sync.WaitGroup
	for i, j := range jobs {
		if scen[i] == nil {
			continue
		}
		wg.Add(1)
		sem <- struct{}{}
		go func(j job, sc Scenario) {
			defer wg.Done()
			defer func() { <-sem }()
			cd := checks[j.prop]
			overlap := sc.Sched != nil && len(sc.Sched.Overlap) > 0
			var ref string
			for _, gmp := range []string{"1", "4", "16", "16", "1"} {
				r, _ := runOne(cd, &sc, oneTimeout(cd), "GOMAXPROCS="+gmp)
				mu.Lock()
				runs++
				mu.Unlock()
				if r == nil {
					mu.Lock()
					bad++
					fmt.Printf("SELFTEST: %s seed %d idx %d GOMAXPROCS=%s: no result\n", j.prop, j.seed, j.idx, gmp)
					mu.Unlock()
					return
				}
				r.WallMS = 0
				r.Sample = nil
				if overlap {
					r.Stats, r.Digest, r.Hash = nil, "", ""
				}
				delete(r.Stats, "decisions.wall")
				b, _ := json.Marshal(r)
				if ref == "" {
					ref = string(b)
				} else if string(b) != ref {
					mu.Lock()
					bad++
					fmt.Printf("NONDETERMINISM: %s seed %d idx %d: GOMAXPROCS=%s differs from the first execution\n  first: %s\n  this : %s\n", j.prop, j.seed, j.idx, gmp, clip(ref, 600), clip(string(b), 600))
					mu.Unlock()
					return
				}
			}
		}(j, *scen[i])
	}
	wg.Wait()
	fmt.Printf("selftest-determinism: %d scenarios x 5 executions (GOMAXPROCS 1,4,16,16,1) = %d process runs, %d divergent, %.0fs\n", len(jobs), runs, bad, time.Since(t0).Seconds())
	if bad > 0 {
		return 2
	}
	return 0
}

// componentsOf states which components ran real code and which ran a stub in this check.
func componentsOf(cd *CheckDef) map[string]string {
	m := map[string]string{
		"package hermes (input, weather, water, N, crop, temperature, output formatting, config, file pool)": "real, compiled from the working tree with tag verif",
		"result files":  "simulated disk behind the OutWriter seam (stub of the file writer); every 40th single-run scenario is repeated on the real disk with the shipped writer and compared byte for byte",
		"input files":   "real files in a private scratch directory",
		"Go scheduler":  "not involved (one run per scenario)",
		"wall clock":    "not read by any compared observable",
	}
	switch cd.Prop {
	case "C03", "C11", "C14", "C18", "C17":
		m["batch dispatcher (doConcurrentBatchRun, error summary)"] = "real (overlay into package main), inside a testing/synctest bubble"
		m["Go scheduler"] = "replaced by the seeded scheduler at hook granularity (run start, pooled-file Get, result-file open/close/record end, log and result sends); real inside overlap windows (C03 race stratum)"
		m["main() flag parsing (-lines, -concurrent, -batch reading)"] = "stub: re-implemented in a few lines by the harness"
		m["result files"] = "simulated disk behind the OutWriter seam (stub of the file writer)"
	}
	if cd.Prop == "C17" {
		m["calcHermesBatch"] = "real binary built from the working tree, child process"
	}
	if cd.Prop == "C13" {
		m["crop file converter"] = "the two functions its main() calls (ConvertCropParamClassicToYml, WriteCropParam): real"
	}
	return m
}
