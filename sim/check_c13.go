package main

// C13 — alternative input formats of the same content give identical results.
// One logical world, two materialisations that differ in exactly one encoding;
// the complete result streams of the two runs must be identical (dates
// compared as dates when the date format itself is what differs).

import (
	"fmt"
	"os"
	"path/filepath"
	"sort"
	"strings"

	"github.com/zalf-rpm/Hermes2Go/hermes"
)

var c13Kinds = []string{"crop-yml-converted", "crop-yml-shipped", "soil", "rotation", "measurement", "weather-0-1", "weather-0-2", "weather-1-2", "dateformat"}

func genC13(r *RNG, idx int, tier string) *Scenario {
	kind := c13Kinds[idx%len(c13Kinds)]
	p := DefaultProfile()
	p.MinYears, p.MaxYears = 1, 3
	p.GWModes = []string{"soilfile", "polygonfile"}
	p.AllowPTF = true
	p.AllowPeat = kind != "soil"
	p.BareProb = 0.1
	p.AllowMeasMid = true
	if strings.HasPrefix(kind, "crop") {
		p.BareProb = 0
		p.MinYears = 2
	}
	if strings.HasPrefix(kind, "weather") {
		p.ETMethods = []int{1, 2, 3, 4}
	}
	w := GenWorld(r.Sub("world", 0), p, paramTables)
	sc := &Scenario{Prop: "C13", Kind: "single", World: w, Bug: &BuggifySpec{Off: true}, Params: map[string]string{"enc": kind}}
	switch kind {
	case "crop-yml-converted", "crop-yml-shipped":
		w.Cfg.CropParamFmt = "txt"
		if idx%4 == 1 {
			// perennial stand following itself (alfalfa, grassland): the readers treat the re-sown stand differently from a new one
			per := r.PickS([]string{"AA", "GR"})
			if paramTables.Crops[per] {
				start := w.Start()
				y := start.Year() + 1
				rot := w.Rot[:1]
				sow := DayOf(y, 4, r.Range(1, 20))
				for k := 0; k < r.Range(3, 4); k++ {
					har := DayOf(sow.Year()+boolInt(k > 0), 10, 15)
					rot = append(rot, RotEntry{Crop: per, Sow: sow, Harvest: har, Rex: r.PickI([]int{0, 100})})
					sow = har + 1
				}
				w.Rot = rot
				w.Till = nil
				last := rot[len(rot)-1].Harvest
				w.Cfg.End = last + Day(r.Range(10, 60))
				if w.Weather.LastDay < DayOf(w.Cfg.End.Year()+1, 12, 31) {
					w.Weather.LastDay = DayOf(w.Cfg.End.Year()+1, 12, 31)
				}
				fixAnnual(w)
				w.Auto = genAutoLines(r, w)
			}
		}
	case "soil":
		w.Cfg.SoilExt = "txt"
	case "rotation":
		w.Cfg.CropFileFormat = "txt"
	case "measurement":
		w.Cfg.MeasFmt = "txt"
		if r.Bool(0.35) {
			w.Meas.Short = true // measured down to 9 dm only
		}
	case "weather-0-1", "weather-0-2", "weather-1-2":
		sc.Grid = true
		w.Cfg.WeatherLayout = int(kind[8] - '0')
		if strings.Contains(kind, "2") && w.Cfg.NumHeader == 3 {
			w.Cfg.NumHeader = r.PickI([]int{1, 2})
		}
		// no sentinels, no calm events (the layouts load different spans at a time)
		var ev []WeatherEvent
		for _, e := range w.Weather.Events {
			if !strings.HasPrefix(e.Kind, "sentinel") && e.Kind != "calm" {
				ev = append(ev, e)
			}
		}
		w.Weather.Events = ev
		if w.Weather.HasVerd {
			w.Weather.HasVerd = w.Cfg.ETpot == 1
		}
		// stratum: decisions that look across the year end. Automatic irrigation (with its two-day rain forecast) is
		// kept wanting water in every stage, December is dry and the new year begins with rain: what the model sees
		// "behind 31 December" depends on how much of the series a layout has loaded.
		if r.Bool(0.35) && len(w.Rot) > 1 {
			w.Cfg.AutoIrr, w.IrrOn = true, true
			for i := range w.Auto {
				w.Auto[i].IrrSt1, w.Auto[i].IrrSt2, w.Auto[i].IrrLow, w.Auto[i].IrrDep = 1, 6, 95, 30
			}
			for y := w.Start().Year(); y <= w.Cfg.End.Year(); y++ {
				w.Weather.Events = append(w.Weather.Events,
					WeatherEvent{Day: DayOf(y, 12, 18), Kind: "drought", Len: 14},
					WeatherEvent{Day: DayOf(y+1, 1, 1), Kind: "rain", Val: float64(r.PickI([]int{0, 12, 30}))},
					WeatherEvent{Day: DayOf(y+1, 1, 2), Kind: "rain", Val: float64(r.PickI([]int{0, 12, 30}))})
			}
			sc.Params["newyear"] = "1"
		}
	case "dateformat":
		others := []string{}
		for _, f := range allDateFormats {
			if f == w.Cfg.DateFormat {
				continue
			}
			short := f == DEshort || f == ENshort
			curShort := w.Cfg.DateFormat == DEshort || w.Cfg.DateFormat == ENshort
			if short && !curShort {
				continue // the century window was not chosen for a short format
			}
			others = append(others, f)
		}
		sc.Params["fmt2"] = r.PickS(others)
		if (w.Cfg.DateFormat == DEshort || w.Cfg.DateFormat == ENshort) && r.Bool(0.5) {
			// edge of the century window: DivideCentury is the two-digit year of the earliest date any input file carries
			first := w.Start()
			if w.Decoys > 0 {
				first = w.Start() - 300 // decoy lines of other fields reach back 300 days
			}
			for _, d := range []Day{w.Rot[0].Sow, w.Meas.Day, w.Weather.FirstDay} {
				if d < first {
					first = d
				}
			}
			if y := first.Year(); y >= 1902 && y <= 1999 && w.Cfg.End.Year()+2 <= y+99 {
				w.Cfg.DivideCentury = y - 1900 // the window is 1900+DivideCentury .. 1999+DivideCentury
				sc.Params["centedge"] = "1"
			}
		}
	}
	return sc
}

// variantB derives the second materialisation.
func c13VariantB(sc *Scenario) (*World, []string) {
	b := cloneScenario(sc).World
	var extra []string
	switch sc.Params["enc"] {
	case "crop-yml-converted":
		b.Cfg.CropParamFmt = "yml"
		extra = []string{"parameter=param2"}
	case "crop-yml-shipped":
		b.Cfg.CropParamFmt = "yml"
	case "soil":
		b.Cfg.SoilExt = "csv"
	case "rotation":
		b.Cfg.CropFileFormat = "csv"
	case "measurement":
		b.Cfg.MeasFmt = "csv"
	case "weather-0-1", "weather-0-2", "weather-1-2":
		b.Cfg.WeatherLayout = int(sc.Params["enc"][10] - '0')
	case "dateformat":
		b.Cfg.DateFormat = sc.Params["fmt2"]
	}
	return b, extra
}

func runC13Variant(sc *Scenario, w *World, env *Env, extra []string, prep func(root string) error) (*RunOutcome, string) {
	ww := BuildWeather(&w.Weather, w.Cfg.NoneValue, sc.Grid)
	root := env.NewRoot()
	if err := WriteFiles(root, w.Files(nil, ww), env.ParamDir); err != nil {
		return nil, err.Error()
	}
	if prep != nil {
		if err := prep(root); err != nil {
			return nil, err.Error()
		}
	}
	disk := NewSimDisk()
	out := env.RunSingle(root, w.Args(extra...), nil, disk)
	return out, ""
}

// compareStreams compares the result files of two runs. Dates are compared as dates when the formats differ.
func compareStreams(a, b *SimDisk, wa, wb *World) string {
	fa, fb := outputsOf(a, outIDWorld(wa)), outputsOf(b, outIDWorld(wb))
	var names []string
	for n := range fa {
		names = append(names, n)
	}
	for n := range fb {
		if _, ok := fa[n]; !ok {
			names = append(names, n)
		}
	}
	sort.Strings(names)
	sameFmt := wa.Cfg.DateFormat == wb.Cfg.DateFormat
	for _, n := range names {
		x, okx := fa[n]
		y, oky := fb[n]
		if !okx || !oky {
			return fmt.Sprintf("file %s exists in only one of the two runs", n)
		}
		if string(x) == string(y) {
			continue
		}
		la, lb := strings.Split(string(x), "\n"), strings.Split(string(y), "\n")
		for i := 0; i < len(la) || i < len(lb); i++ {
			var sa, sb string
			if i < len(la) {
				sa = strings.TrimRight(la[i], "\r")
			}
			if i < len(lb) {
				sb = strings.TrimRight(lb[i], "\r")
			}
			if sa == sb {
				continue
			}
			if !sameFmt && sameButDates(sa, sb, wa, wb) {
				continue
			}
			date := ""
			if f := strings.FieldsFunc(sa, func(r rune) bool { return r == ',' || r == ' ' }); len(f) > 0 {
				if d, err := ParseOutDate(f[0], wa.Cfg.DateFormat, wa.Cfg.DivideCentury); err == nil {
					date = " (" + d.ISO() + ")"
				}
			}
			return fmt.Sprintf("file %s, line %d%s: %q vs %q", n, i+1, date, clip(sa, 160), clip(sb, 160))
		}
	}
	return ""
}

func clip(s string, n int) string {
	if len(s) > n {
		return s[:n] + "..."
	}
	return s
}

func sameButDates(sa, sb string, wa, wb *World) bool {
	split := func(s string) []string {
		return strings.FieldsFunc(s, func(r rune) bool { return r == ',' || r == ' ' })
	}
	ta, tb := split(sa), split(sb)
	if len(ta) != len(tb) {
		return false
	}
	for i := range ta {
		if ta[i] == tb[i] {
			continue
		}
		da, ea := ParseOutDate(ta[i], wa.Cfg.DateFormat, wa.Cfg.DivideCentury)
		db, eb := ParseOutDate(tb[i], wb.Cfg.DateFormat, wb.Cfg.DivideCentury)
		if ea != nil || eb != nil || da != db {
			return false
		}
	}
	return true
}

func execC13(sc *Scenario, env *Env) *Result {
	res := &Result{Idx: sc.Idx, Status: "ok"}
	kind := sc.Params["enc"]
	wa := sc.World
	wb, extraB := c13VariantB(sc)
	res.add("kind."+kind, 1)
	if strings.HasPrefix(kind, "crop") && len(wa.Rot) < 2 {
		res.Status, res.Note = "invalid", "no crop"
		return res
	}
	var prep func(root string) error
	if kind == "crop-yml-converted" {
		prep = func(root string) error {
			// the shipped converter: ConvertCropParamClassicToYml + WriteCropParam, as src/cropfileconverter does
			dst := filepath.Join(root, "param2")
			if err := copyDir(env.ParamDir, dst); err != nil {
				return err
			}
			for _, e := range wa.Rot[1:] {
				name := "PARAM." + e.Crop
				if e.Variety != "" {
					name = "PARAM_" + e.Variety + "." + e.Crop
				}
				var cp hermes.CropParam
				var err error
				env.quiet(false, func() {
					cp, err = hermes.ConvertCropParamClassicToYml(filepath.Join(env.ParamDir, name), hermes.NewHermesSession())
				})
				if err != nil {
					return err
				}
				os.Remove(filepath.Join(dst, name+".yml"))
				if err := hermes.WriteCropParam(filepath.Join(dst, name+".yml"), cp); err != nil {
					return err
				}
			}
			return nil
		}
	}
	outA, errA := runC13Variant(sc, wa, env, nil, nil)
	outB, errB := runC13Variant(sc, wb, env, extraB, prep)
	if errA != "" || errB != "" {
		res.Status, res.Note = "invalid", errA+errB
		return res
	}
	res.Hash = fmt.Sprintf("%016x-%s", hashWorld(wa, nil), kind)
	res.Digest = outA.Disk.Digest() + "|" + outB.Disk.Digest()
	if outA.Panic != "" || outB.Panic != "" {
		res.Status, res.Note = "crash", "panic: "+shortPanic(outA.Panic+outB.Panic)
		if where, model := panicOrigin(outA.Panic + outB.Panic); model {
			res.Violations = append(res.Violations, Violation{Prop: "C13", Oracle: "run-completes", Class: "model-panic@" + strings.Split(where, ":")[0], Detail: "a run panicked inside the model: " + firstLine(outA.Panic+outB.Panic) + " at " + where})
			res.Status = "violation"
		}
		return res
	}
	if outA.Success != outB.Success {
		res.Violations = append(res.Violations, Violation{Prop: "C13", Oracle: "same-outcome", Class: "one-encoding-fails:" + kind, Detail: fmt.Sprintf("encoding A: success=%v %s; encoding B: success=%v %s", outA.Success, outA.Err, outB.Success, outB.Err)})
		res.Status = "violation"
		return res
	}
	if !outA.Success {
		res.Status, res.Note = "invalid", "both encodings rejected: "+outA.Err
		return res
	}
	if d := compareStreams(outA.Disk, outB.Disk, wa, wb); d != "" {
		res.Violations = append(res.Violations, Violation{Prop: "C13", Oracle: "identical-results", Class: "results-differ-between-encodings:" + kind, Detail: fmt.Sprintf("%s: %s", kind, d)})
		res.Status = "violation"
	}
	res.add("pairs.compared", 1)
	return res
}

func init() {
	register(&CheckDef{
		Prop: "C13", Level: "exploration",
		Gen:  genC13,
		Exec: execC13,
		Quick: 1200, Thorough: 36000,
		NonTrivial: func(res *Result) bool { return res.Stats["pairs.compared"] > 0 },
		Rule:       "one logical world per evaluation, materialised twice with exactly one encoding changed (crop parameters classic vs YAML produced by the shipped converter functions, classic vs shipped YAML, soil txt vs CSV, rotation txt vs CSV, measurement txt vs CSV, weather layout 0/1, 0/2, 1/2, date format vs another of the four); both runs through the real session.Run, their complete V/Y/C/M streams compared line by line (dates compared as dates when the date format differs); the first divergent line and simulated day are reported; non-trivial = both runs completed and were compared",
		ReachKeys:  []string{"kind.crop-yml-converted", "kind.crop-yml-shipped", "kind.soil", "kind.rotation", "kind.measurement", "kind.weather-0-1", "kind.weather-0-2", "kind.weather-1-2", "kind.dateformat", "pairs.compared"},
		Assumptions: []string{
			"values are generated on the grid the narrower encoding can express (integer soil values, no measured bulk density, C_org below 10 % for soil pairs; temperatures on a 0.25 K grid so that the derived mean is exact; no sentinels or calm days for weather pairs; no reference-ET method for weather pairs)",
			"this is a differential check executed by the simulator; no schedule or fault dimension except that layout 0 loads weather lazily at year roll-over while layouts 1 and 2 preload",
		},
	})
}
