package main

// C14, stratum "project without config.yml" (shipped binary, real disk; a history of invocations): every line carries
// the project's whole configuration as key=value; line A also carries a few of the keys that have a documented default,
// line B leaves exactly those out. A run that finds no config.yml writes the default configuration into the project.
// B must use the documented defaults whatever ran before it: B after A in a second invocation, B after A in one
// session, and B alone on a fresh copy of the project must give byte-identical result files.

import (
	"fmt"
	"os"
	"os/exec"
	"path/filepath"
	"sort"
	"strings"
	"time"
)

func configTokens(w *World, leaveOut map[string]bool) []string {
	var toks []string
	for _, l := range strings.Split(w.ConfigYAML(nil), "\n") {
		k := strings.Index(l, ": ")
		if k <= 0 {
			continue
		}
		key, val := l[:k], strings.Trim(strings.TrimSpace(l[k+2:]), "\"")
		if leaveOut[key] || val == "" || strings.ContainsAny(val, " \t") {
			continue
		}
		// on the batch line the two enumerations are given by number
		if n, ok := map[string]string{"polygonfile": "0", "soilfile": "1", "gwTimeSeries": "2", "DateDEshort": "0", "DateDElong": "1", "DateENshort": "2", "DateENlong": "3"}[val]; ok && (key == "GroundWaterFrom" || key == "Dateformat") {
			val = n
		}
		toks = append(toks, key+"="+val)
	}
	return toks
}

func execC14NoConfig(sc *Scenario, env *Env) *Result {
	t0 := time.Now()
	res := &Result{Idx: sc.Idx, Status: "ok", Hash: fmt.Sprintf("noconfig-%d", sc.Idx)}
	bin := os.Getenv("VERIF_HERMES2GO")
	if bin == "" {
		bin = filepath.Join(verifRoot(), ".build", "hermes2go")
	}
	w := sc.Worlds[0]
	var seed uint64
	fmt.Sscan(sc.Params["noconfigseed"], &seed)
	r := NewRNG(seed)
	// the keys B leaves to their defaults (A gives them values that differ from the defaults)
	keys := make([]string, 0, len(c14Defaults))
	for k := range c14Defaults {
		keys = append(keys, k)
	}
	sort.Strings(keys)
	for i := len(keys) - 1; i > 0; i-- {
		j := r.Intn(i + 1)
		keys[i], keys[j] = keys[j], keys[i]
	}
	leave := map[string]bool{}
	for _, k := range keys[:r.Range(1, 4)] {
		leave[k] = true
	}
	full := configTokens(w, nil)
	base := []string{"project=" + w.Loc, "plotNr=" + w.Plot, "fcode=" + w.FCode}
	lineA := strings.Join(append(append(append([]string{}, base...), "poligonID=LA"), full...), " ")
	lineB := strings.Join(append(append(append([]string{}, base...), "poligonID=LB"), configTokens(w, leave)...), " ")
	mk := func() (string, error) {
		root := env.NewRoot()
		if err := WriteFiles(root, w.Files(nil, BuildWeather(&w.Weather, w.Cfg.NoneValue, sc.Grid)), env.ParamDir); err != nil {
			return "", err
		}
		os.Remove(filepath.Join(root, "project", w.Loc, "config.yml"))
		return root, nil
	}
	invoke := func(root string, lines ...string) (string, error) {
		bf := filepath.Join(root, fmt.Sprintf("batch%d.txt", time.Now().UnixNano()))
		os.WriteFile(bf, []byte(strings.Join(lines, "\n")+"\n"), 0o644)
		cmd := exec.Command(bin, "-module", "batch", "-concurrent", "1", "-workingdir", root, "-batch", bf)
		cmd.Dir = root
		return runChild(cmd, 3*time.Minute, nil)
	}
	filesOfB := func(root string) map[string][]byte {
		m := map[string][]byte{}
		dir := filepath.Join(root, "project", w.Loc, "RESULT")
		ents, _ := os.ReadDir(dir)
		for _, e := range ents {
			if len(e.Name()) > 1 && strings.HasPrefix(e.Name()[1:], "LB"+w.Plot) {
				if b, err := os.ReadFile(filepath.Join(dir, e.Name())); err == nil {
					m[e.Name()] = b
				}
			}
		}
		return m
	}
	viol := func(class, detail string) {
		res.Violations = append(res.Violations, Violation{Prop: "C14", Oracle: "no-config-history", Class: class, Detail: detail})
		res.Status = "violation"
	}
	var leftOut []string
	for k := range leave {
		leftOut = append(leftOut, k)
	}
	sort.Strings(leftOut)
	// reference: B alone on a fresh copy
	rootRef, err := mk()
	if err != nil {
		res.Status, res.Note = "invalid", err.Error()
		return res
	}
	out, ierr := invoke(rootRef, lineB)
	if ierr != nil || !strings.Contains(out, "Number of errors: 0") {
		res.Status, res.Note = "invalid", "the project does not run on the documented defaults of "+strings.Join(leftOut, ",")+": "+firstLine(lastNonEmpty(out))
		res.WallMS = nowMS(t0)
		return res
	}
	ref := filesOfB(rootRef)
	if len(ref) == 0 {
		res.Status, res.Note = "invalid", "reference run left no result files"
		return res
	}
	res.add("reach.project-without-config-file", 1)
	// history 1: A, then B in a second invocation
	root1, _ := mk()
	if o, e := invoke(root1, lineA); e != nil || !strings.Contains(o, "Number of errors: 0") {
		res.Status, res.Note = "invalid", "line A failed: "+firstLine(lastNonEmpty(o))
		return res
	}
	if o, e := invoke(root1, lineB); e != nil || !strings.Contains(o, "Number of errors: 0") {
		viol("line-fails-after-an-earlier-invocation", fmt.Sprintf("the line without %s runs alone on a fresh project but fails in a project in which another line ran before: %s", strings.Join(leftOut, ","), firstLine(lastNonEmpty(o))))
	} else if d := diffFiles(ref, filesOfB(root1)); d != "" {
		viol("defaults-depend-on-an-earlier-invocation", fmt.Sprintf("project without config.yml; the line that leaves %s to their defaults gives other results after an earlier invocation whose line carried them than on a fresh copy of the project: %s", strings.Join(leftOut, ","), d))
	}
	// history 2: A and B in one session
	root2, _ := mk()
	if o, e := invoke(root2, lineA, lineB); e != nil || !strings.Contains(o, "Number of errors: 0") {
		viol("line-fails-after-an-earlier-line", fmt.Sprintf("the line without %s fails as second line of a session: %s", strings.Join(leftOut, ","), firstLine(lastNonEmpty(o))))
	} else if d := diffFiles(ref, filesOfB(root2)); d != "" {
		viol("defaults-depend-on-an-earlier-line", fmt.Sprintf("project without config.yml; the line that leaves %s to their defaults gives other results as second line of a session whose first line carried them than alone: %s", strings.Join(leftOut, ","), d))
	}
	res.add("values.checked", float64(len(leave)))
	res.add("reach.interleaved", 1) // (counted as non-trivial: two histories were compared)
	res.WallMS = nowMS(t0)
	return res
}
