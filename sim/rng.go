package main

// Deterministic PRNG: SplitMix64. Everything random in the simulator is drawn
// from an instance of this generator that is derived from VERIF_SEED and a
// stream label; nothing else (time, pid, map order) feeds a choice.

import (
	"hash/fnv"
	"math"
)

type RNG struct{ s uint64 }

func NewRNG(seed uint64) *RNG { return &RNG{s: seed} }

// Sub derives an independent stream from a label and index.
func (r *RNG) Sub(label string, idx uint64) *RNG {
	h := fnv.New64a()
	h.Write([]byte(label))
	x := r.s ^ h.Sum64() ^ (idx * 0x9E3779B97F4A7C15)
	n := &RNG{s: x}
	n.U64()
	n.U64()
	return n
}

func (r *RNG) U64() uint64 {
	r.s += 0x9E3779B97F4A7C15
	z := r.s
	z = (z ^ (z >> 30)) * 0xBF58476D1CE4E5B9
	z = (z ^ (z >> 27)) * 0x94D049BB133111EB
	return z ^ (z >> 31)
}

// Intn returns an int in [0,n).
func (r *RNG) Intn(n int) int {
	if n <= 1 {
		return 0
	}
	return int(r.U64() % uint64(n))
}

// Range returns an int in [lo,hi].
func (r *RNG) Range(lo, hi int) int {
	if hi <= lo {
		return lo
	}
	return lo + r.Intn(hi-lo+1)
}

func (r *RNG) F() float64 { return float64(r.U64()>>11) / float64(1<<53) }

func (r *RNG) FRange(lo, hi float64) float64 { return lo + (hi-lo)*r.F() }

func (r *RNG) Bool(p float64) bool { return r.F() < p }

func (r *RNG) Norm() float64 {
	u1 := r.F()
	if u1 < 1e-300 {
		u1 = 1e-300
	}
	u2 := r.F()
	return math.Sqrt(-2*math.Log(u1)) * math.Cos(2*math.Pi*u2)
}

func (r *RNG) PickS(xs []string) string { return xs[r.Intn(len(xs))] }
func (r *RNG) PickI(xs []int) int       { return xs[r.Intn(len(xs))] }
func (r *RNG) PickF(xs []float64) float64 {
	return xs[r.Intn(len(xs))]
}

// Weighted picks an index according to weights.
func (r *RNG) Weighted(w []float64) int {
	t := 0.0
	for _, x := range w {
		t += x
	}
	u := r.F() * t
	for i, x := range w {
		if u < x {
			return i
		}
		u -= x
	}
	return len(w) - 1
}

func round(x float64, dec int) float64 {
	p := math.Pow(10, float64(dec))
	return math.Round(x*p) / p
}

func min(a, b int) int {
	if a < b {
		return a
	}
	return b
}

func max(a, b int) int {
	if a > b {
		return a
	}
	return b
}
