package main

// C09 — crop state stays valid and development never runs backwards.

import (
	"fmt"
	"math"
	"strings"

	"github.com/zalf-rpm/Hermes2Go/hermes"
)

type cropCycle struct {
	akf      int
	crop     string
	sow      int
	harvest  int
	reach    [12]int // absolute day on which stage index k was entered
	maxStage int
}

type c09Oracle struct {
	obase
	w       *World
	cur     *cropCycle
	cycles  []*cropCycle
	lastAKF int
	lastInt int
	day     int
}

func (o *c09Oracle) Probe(pt string, zeit, subd int, wdt float64, g *G, w *hermes.WaterSharedVars, n *hermes.NitroSharedVars, c *hermes.CropSharedVars) {
	switch pt {
	case "daystart":
		o.day = zeit
	case "nitro.pre":
		if subd != 1 {
			return
		}
		// state right after crop growth of the day (PhytoOut ran on the first sub-step), before harvest handling
		akf := g.AKF.Index
		growing := akf > 0 && g.SAAT[akf] > 0 && zeit >= g.SAAT[akf] && zeit <= g.ERNTE2[akf]
		if !growing {
			return
		}
		if o.cur == nil || o.cur.akf != akf {
			o.cur = &cropCycle{akf: akf, sow: g.SAAT[akf], crop: g.CropTypeToString(g.FRUCHT[akf], true)}
			o.cycles = append(o.cycles, o.cur)
			o.lastInt = -1
			o.hit("crop.cycles")
		}
		if perennialCrop(o.cur.crop) {
			// a ley preceding the annual crops of the rotation: grown, not judged (the property claims annual crops)
			if zeit == g.ERNTE[akf] {
				o.cur.harvest = zeit
			}
			o.hit("reach.ley-in-rotation")
			return
		}
		st := g.INTWICK.Index
		if st < o.lastInt {
			o.violate("development", "development-stage-decreased", zeit,
				fmt.Sprintf("development stage of %s fell from %d to %d between sowing and harvest", o.cur.crop, o.lastInt+1, st+1), map[string]float64{"from": float64(o.lastInt + 1), "to": float64(st + 1)})
		}
		if st > o.lastInt {
			for k := o.lastInt + 1; k <= st && k < len(o.cur.reach); k++ {
				if k >= 0 {
					o.cur.reach[k] = zeit
				}
			}
			if st > o.cur.maxStage {
				o.cur.maxStage = st
			}
		}
		o.lastInt = st
		if zeit == g.ERNTE[akf] {
			o.cur.harvest = zeit
		}
		// crop state valid
		chk := func(name string, v float64) {
			if !finite(v) {
				o.violate("finite", "non-finite-crop-state:"+name, zeit, fmt.Sprintf("%s of %s is %v (stage %d)", name, o.cur.crop, v, st+1), nil)
			} else if v < 0 {
				o.violate("non-negative", "negative-crop-state:"+name, zeit, fmt.Sprintf("%s of %s is %.9g (stage %d, day %d after sowing)", name, o.cur.crop, v, st+1, zeit-o.cur.sow), map[string]float64{"value": v})
			}
		}
		for i := 0; i < len(g.WORG); i++ {
			chk(fmt.Sprintf("organ mass %d", i+1), g.WORG[i])
		}
		chk("above-ground biomass", g.OBMAS)
		chk("root biomass", g.WUMAS)
		chk("leaf area index", g.LAI)
		chk("assimilate pool", g.ASPOO)
		chk("crop N content", g.PESUM)
		chk("shoot N concentration", g.GEHOB)
		chk("root N concentration", g.WUGEH)
		for name, v := range map[string]float64{"water stress factor TRREL": g.TRREL, "N stress factor REDUK": g.REDUK} {
			if !finite(v) || v < 0 || v > 1+1e-12 {
				o.violate("stress-range", "stress-factor-outside-unit-interval:"+name[len(name)-5:], zeit, fmt.Sprintf("%s = %v", name, v), nil)
			}
		}
		// rooting depth
		if g.WURZ > g.N {
			o.violate("root-depth", "roots-below-profile", zeit, fmt.Sprintf("rooting depth %d layers, profile has %d", g.WURZ, g.N), nil)
		}
		lim := math.Max(1, math.Round(float64(g.WURZMAX)*math.Max(g.WUMAXPF, 11)/11))
		if float64(g.WURZ) > lim {
			o.violate("root-depth", "roots-below-soil-root-limit", zeit, fmt.Sprintf("rooting depth %d layers exceeds the soil's root limit %d (crop factor %.3g/11)", g.WURZ, g.WURZMAX, g.WUMAXPF), nil)
		}
		if g.WURZ == g.N || float64(g.WURZ) == lim {
			o.hit("reach.root-limit")
		}
		if g.REDUK < 0.5 {
			o.hit("reach.n-stress")
		}
		if g.TRREL < 0.5 {
			o.hit("reach.water-stress")
		}
		if g.LURED < 1 {
			o.hit("reach.air-shortage")
		}
		if g.TEMP[g.TAG.Index] < -5 {
			o.hit("reach.frost-on-crop")
		}
	}
}

func (o *c09Oracle) Finish(out *RunOutcome, res *Result) {
	defer o.flush(res)
	if out == nil || out.Disk == nil || !out.Success {
		return
	}
	// reported phenology = the transitions observed, in calendar order
	st := parseStream(findStream(out.Disk, "C", outIDWorld(o.w)), o.w.Cfg.ResultFormat == 1, 1)
	ci := map[string]int{}
	for _, k := range []string{"Crop", "SowDOY", "EmergDOY", "AnthDOY", "MatDOY", "HarvestDOY", "HarvestYear"} {
		ci[k] = st.col(k)
		if ci[k] < 0 {
			return
		}
	}
	var done []*cropCycle
	for _, c := range o.cycles {
		if c.harvest > 0 {
			done = append(done, c)
		}
	}
	if len(st.Recs) != len(done) {
		// C05 owns record counts; here only matched records are compared
		o.hit("crop.records-unmatched")
	}
	for i := 0; i < len(st.Recs) && i < len(done); i++ {
		rec, c := st.Recs[i], done[i]
		if perennialCrop(c.crop) {
			continue
		}
		geti := func(k string) int {
			if ci[k] >= len(rec) {
				return -999
			}
			v, _ := atoi(rec[ci[k]])
			return v
		}
		doy := func(d int) int {
			if d == 0 {
				return 0
			}
			return Day(d).YearDay()
		}
		want := map[string]int{"SowDOY": doy(c.sow), "EmergDOY": doy(c.reach[1]), "AnthDOY": doy(c.reach[4]), "MatDOY": doy(c.reach[5]), "HarvestDOY": doy(c.harvest), "HarvestYear": Day(c.harvest).Year()}
		for _, k := range []string{"SowDOY", "EmergDOY", "AnthDOY", "MatDOY", "HarvestDOY", "HarvestYear"} {
			if got := geti(k); got != want[k] {
				o.violate("phenology-report", "reported-phenology-differs-from-observed:"+k, c.harvest,
					fmt.Sprintf("crop record %d (%s): %s reported %d, the run entered that stage on %s (day-of-year %d)", i+1, c.crop, k, got, isoOr0(c, k), want[k]), nil)
			}
		}
		// order on absolute days
		seq := []int{c.sow, c.reach[1], c.reach[4], c.reach[5], c.harvest}
		last := 0
		for _, d := range seq {
			if d == 0 {
				continue
			}
			if d < last {
				o.violate("phenology-order", "phenology-out-of-order", c.harvest, fmt.Sprintf("crop record %d (%s): stage dates not ascending: %v", i+1, c.crop, seq), nil)
			}
			last = d
		}
		if c.reach[5] > 0 {
			o.hit("reach.maturity")
		}
		if c.reach[4] > 0 && Day(c.reach[4]).Year() != Day(c.sow).Year() {
			o.hit("reach.winter-crop-across-year")
		}
	}
}

func isoOr0(c *cropCycle, k string) string {
	d := 0
	switch k {
	case "SowDOY":
		d = c.sow
	case "EmergDOY":
		d = c.reach[1]
	case "AnthDOY":
		d = c.reach[4]
	case "MatDOY":
		d = c.reach[5]
	default:
		d = c.harvest
	}
	if d == 0 {
		return "no day (stage not reached)"
	}
	return Day(d).ISO()
}

func init() {
	register(&CheckDef{
		Prop: "C09", Level: "exploration",
		Gen: func(r *RNG, idx int, tier string) *Scenario {
			p := wetDryProfile()
			p.MaxYears = 4
			p.BareProb = 0
			p.LeachAtBottom = true
			w := GenWorld(r.Sub("world", 0), p, paramTables)
			switch idx % 5 {
			case 0: // zero N supply
				w.Fert = nil
				w.Cfg.NDeposition = 0
				for i := range w.Meas.Nmin {
					w.Meas.Nmin[i] = 0
				}
				w.Meas.Day = w.Start()
			case 1: // excess N
				for i := range w.Meas.Nmin {
					w.Meas.Nmin[i] = r.Range(100, 400)
				}
				w.Meas.Day = w.Start()
			case 2: // drought and heat in the season
				for _, e := range w.Rot[1:] {
					w.Weather.Events = append(w.Weather.Events, WeatherEvent{Day: e.Sow + Day(r.Range(10, 60)), Kind: "drought", Len: r.Range(40, 150)}, WeatherEvent{Day: e.Sow + Day(r.Range(30, 90)), Kind: "heat", Val: float64(r.Range(30, 44)), Len: r.Range(5, 40)})
				}
			case 3: // frost after emergence, waterlogging
				for _, e := range w.Rot[1:] {
					w.Weather.Events = append(w.Weather.Events, WeatherEvent{Day: e.Sow + Day(r.Range(15, 120)), Kind: "frost", Val: float64(-r.Range(5, 30)), Len: r.Range(1, 20)}, WeatherEvent{Day: e.Sow + Day(r.Range(20, 100)), Kind: "rain", Val: float64(r.Range(60, 250))})
				}
				w.Soil.GW = r.Range(1, 4)
			}
			if idx%7 == 6 && len(w.Rot) > 2 {
				// a ley (lucerne, grassland) as the first crop of the rotation: the annual crop behind it starts from the
				// state a permanent stand leaves
				per := r.PickS([]string{"AA", "GR"})
				if paramTables.Crops[per] {
					w.Rot[1].Crop, w.Rot[1].Variety = per, ""
					w.Auto = genAutoLines(r, w)
				}
			}
			return &Scenario{Prop: "C09", Kind: "single", World: w, Bug: genBug(r.Sub("bug", 0), false)}
		},
		Exec: func(sc *Scenario, env *Env) *Result {
			o := &c09Oracle{w: sc.World}
			o.init("C09")
			res, _ := runTrajectory(sc, env, nil, []Oracle{o}, nil)
			return res
		},
		Quick: 2000, Thorough: 60000,
		NonTrivial: func(res *Result) bool { return res.Status == "ok" && res.Stats["crop.cycles"] > 0 },
		Rule:       "one generated world per evaluation (every shipped annual crop, classic and YAML parameters, varieties, N supply zero..excess, drought, heat, frost, waterlogging, three CO2 methods), run by the real session.Run; crop state invariants after each day's growth step; the crop result file's phenology is compared with the stage transitions observed on absolute simulated days; non-trivial = at least one crop cycle was observed",
		ReachKeys:  []string{"crop.cycles", "reach.maturity", "reach.n-stress", "reach.water-stress", "reach.root-limit", "reach.frost-on-crop", "reach.winter-crop-across-year"},
		Assumptions: []string{
			"the soil's root limit is taken as the profile value, scaled up only when the crop's documented depth factor exceeds its neutral value 11",
			"permanent crops are generated only as the ley that precedes the annual crops of a rotation and are not judged themselves (not claimed by the property); ad-hoc catch-crop sets are not generated",
		},
	})
}

func perennialCrop(code string) bool {
	switch strings.TrimSpace(code) {
	case "AA", "GR":
		return true
	}
	return false
}
