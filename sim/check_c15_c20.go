package main

// C15 — soil hydraulic parameters are physically ordered for every parameter source,
//       W = pore volume below the groundwater table, parameters restored when the table revisits a level.
// C20 — the groundwater level follows the supplied series / oscillates between the polygon file's levels.

import (
	"fmt"
	"math"
	"sort"

	"github.com/zalf-rpm/Hermes2Go/hermes"
)

// ---------------------------------------------------------------- C15

type hydSnap struct {
	w, wmin, por, wnor [21]float64
	wred               float64
	day                int
}

type c15Oracle struct {
	obase
	w      *World
	seen   map[uint64]*hydSnap
	maxW   [21]float64 // first-pass use: field capacity the system derived
	noHist bool
	days   int
}

func (o *c15Oracle) route() string {
	h := o.w.Soil.Horizons[0]
	switch {
	case o.w.Cfg.PTF > 0:
		return fmt.Sprintf("ptf%d", o.w.Cfg.PTF)
	case h.FC > 0:
		return "explicit"
	}
	return "table"
}

func (o *c15Oracle) Probe(pt string, zeit, subd int, wdt float64, g *G, w *hermes.WaterSharedVars, n *hermes.NitroSharedVars, c *hermes.CropSharedVars) {
	if pt != "evatra" {
		return
	}
	o.days++
	rt := o.route()
	var s hydSnap
	s.day = zeit
	s.wred = g.WRED
	for i := 0; i < g.N; i++ {
		s.w[i], s.wmin[i], s.por[i], s.wnor[i] = g.W[i], g.WMIN[i], g.PORGES[i], g.WNOR[i]
		if g.W[i] > o.maxW[i] {
			o.maxW[i] = g.W[i]
		}
		if g.WNOR[i] > o.maxW[i] {
			o.maxW[i] = g.WNOR[i]
		}
	}
	if o.noHist {
		return
	}
	for i := 0; i < g.N; i++ {
		wm, fc, pv := g.WMIN[i], g.W[i], g.PORGES[i]
		ok := finite(wm) && finite(fc) && finite(pv) && wm > 0 && wm < fc && fc <= pv+1e-12 && pv < 1
		if !ok {
			cls := "parameters-not-ordered:" + rt
			if h := o.horizonOf(i); rt == "table" && wm > 0 && wm < fc && pv < 1 && fc > pv && h.Corg > 2.3 && h.Tex[0] != 'S' && h.Tex[0] != 'H' {
				// the table route adds a humus correction to the field capacity of silty/loamy/clayey textures but none to their pore volume
				cls += ":fc-above-pv-by-humus-correction"
			}
			o.violate("ordering", cls, zeit,
				fmt.Sprintf("layer %d (route %s, texture %s, stones %d %%, groundwater %.3g dm): wilting point %.6g, field capacity %.6g, pore volume %.6g violate 0 < WP < FC <= PV < 1", i+1, rt, o.texOf(i), o.stoneOf(i), g.GRW, wm, fc, pv),
				map[string]float64{"wp": wm, "fc": fc, "pv": pv, "layer": float64(i + 1)})
			break
		}
		// entirely below the groundwater table: field capacity equals pore volume
		if float64(i) >= g.GRW && fc != pv {
			o.violate("below-groundwater", "field-capacity-not-pore-volume-below-groundwater", zeit,
				fmt.Sprintf("layer %d lies entirely below the groundwater table (%.4g dm) but field capacity %.9g != pore volume %.9g", i+1, g.GRW, fc, pv), nil)
			break
		}
		if float64(i) >= g.GRW {
			o.hit("reach.layer-below-table")
		}
	}
	if !(g.WMIN[0] < g.WRED && g.WRED < g.W[0]) {
		o.violate("threshold", "mineralisation-threshold-not-between-wp-and-fc:"+rt, zeit,
			fmt.Sprintf("top layer (route %s, texture %s, stones %d %%): reduced-mineralisation threshold %.6g is not strictly between wilting point %.6g and field capacity %.6g", rt, o.texOf(0), o.stoneOf(0), g.WRED, g.WMIN[0], g.W[0]),
			map[string]float64{"wred": g.WRED, "wp": g.WMIN[0], "fc": g.W[0]})
	}
	// history: the same groundwater level gives the same parameters as before
	key := math.Float64bits(g.GRW)
	if old, ok := o.seen[key]; ok {
		if old.w != s.w || old.wmin != s.wmin || old.por != s.por || old.wnor != s.wnor || old.wred != s.wred {
			which, a, b, layer := diffSnap(old, &s, g.N)
			o.violate("restoration", "parameters-differ-at-revisited-groundwater-level:"+which, zeit,
				fmt.Sprintf("groundwater is at %.6g dm as on %s, but %s of layer %d is %.9g now and was %.9g then (route %s)", g.GRW, Day(old.day).ISO(), which, layer, b, a, rt), nil)
		} else if old.day < zeit-1 {
			o.hit("reach.level-revisited")
		}
	} else {
		cp := s
		o.seen[key] = &cp
		if len(o.seen) > 1 {
			o.hit("reach.level-changed")
		}
	}
}

func diffSnap(a, b *hydSnap, n int) (string, float64, float64, int) {
	for i := 0; i < n; i++ {
		switch {
		case a.w[i] != b.w[i]:
			return "field capacity", a.w[i], b.w[i], i + 1
		case a.wmin[i] != b.wmin[i]:
			return "wilting point", a.wmin[i], b.wmin[i], i + 1
		case a.por[i] != b.por[i]:
			return "pore volume", a.por[i], b.por[i], i + 1
		case a.wnor[i] != b.wnor[i]:
			return "uncorrected field capacity", a.wnor[i], b.wnor[i], i + 1
		}
	}
	return "mineralisation threshold", a.wred, b.wred, 1
}

func (o *c15Oracle) horizonOf(layer int) *Horizon {
	for i := range o.w.Soil.Horizons {
		if layer+1 <= o.w.Soil.Horizons[i].Depth {
			return &o.w.Soil.Horizons[i]
		}
	}
	return &o.w.Soil.Horizons[len(o.w.Soil.Horizons)-1]
}
func (o *c15Oracle) texOf(layer int) string { return o.horizonOf(layer).Tex }
func (o *c15Oracle) stoneOf(layer int) int  { return o.horizonOf(layer).Stone }

func (o *c15Oracle) Finish(out *RunOutcome, res *Result) {
	o.addStat("route."+o.route(), 1)
	o.flush(res)
}

func execC15(sc *Scenario, env *Env) *Result {
	w := sc.World
	if w.Cfg.PTF > 0 && sc.Params["ps-fixed"] == "" {
		// first pass: read the field capacity the system derives, then give every horizon a pore volume above it
		// (the transfer functions give FC and WP only; a valid soil file states a pore volume >= FC)
		probe := cloneScenario(sc)
		probe.World.Cfg.End = probe.World.Start() + 1
		probe.World.GWSeries = nil
		probe.World.Cfg.GroundWater = "soilfile"
		probe.World.Soil.GW = 99
		o := &c15Oracle{w: probe.World, seen: map[uint64]*hydSnap{}, noHist: true}
		o.init("C15")
		runTrajectory(probe, env, nil, []Oracle{o}, nil)
		top := 0
		for hi := range w.Soil.Horizons {
			h := &w.Soil.Horizons[hi]
			mx := 0.0
			for l := top; l < h.Depth && l < 21; l++ {
				if o.maxW[l] > mx {
					mx = o.maxW[l]
				}
			}
			top = h.Depth
			need := int(math.Ceil(mx*100)) + 1
			if need >= 99 || mx <= 0 {
				continue
			}
			if h.PS < need {
				h.PS = need
			}
		}
	}
	o := &c15Oracle{w: w, seen: map[uint64]*hydSnap{}}
	o.init("C15")
	res, _ := runTrajectory(sc, env, nil, []Oracle{o}, nil)
	return res
}

// ---------------------------------------------------------------- C20

type c20Oracle struct {
	obase
	w      *World
	levels map[int]float64 // day -> level used (for the phase relation)
}

func (o *c20Oracle) reference(d Day) (float64, float64, float64) {
	s := o.w.GWSeries
	i := sort.Search(len(s), func(k int) bool { return s[k].Day >= d })
	if i < len(s) && s[i].Day == d {
		return s[i].Level, s[i].Level, s[i].Level
	}
	if i == 0 {
		return s[0].Level, s[0].Level, s[0].Level
	}
	if i == len(s) {
		l := s[len(s)-1].Level
		return l, l, l
	}
	a, b := s[i-1], s[i]
	v := a.Level + (b.Level-a.Level)*float64(d-a.Day)/float64(b.Day-a.Day)
	return v, math.Min(a.Level, b.Level), math.Max(a.Level, b.Level)
}

func (o *c20Oracle) Probe(pt string, zeit, subd int, wdt float64, g *G, w *hermes.WaterSharedVars, n *hermes.NitroSharedVars, c *hermes.CropSharedVars) {
	if pt != "evatra" {
		return
	}
	d := Day(zeit)
	o.levels[zeit] = g.GRW
	switch o.w.Cfg.GroundWater {
	case "gwTimeSeries":
		want, lo, hi := o.reference(d)
		if !finite(g.GRW) || math.Abs(g.GRW-want) > 1e-9 {
			o.violate("series", "level-differs-from-series", zeit,
				fmt.Sprintf("%s: groundwater level used is %.9g dm, the series gives %.9g (interpolation bounds %.6g..%.6g)", d.ISO(), g.GRW, want, lo, hi), map[string]float64{"got": g.GRW, "want": want})
		}
		if g.GRW < lo-1e-9 || g.GRW > hi+1e-9 {
			o.violate("series", "level-outside-neighbouring-values", zeit, fmt.Sprintf("%s: level %.9g outside [%.9g, %.9g]", d.ISO(), g.GRW, lo, hi), nil)
		}
		s := o.w.GWSeries
		switch {
		case d < s[0].Day:
			o.hit("reach.before-series")
		case d > s[len(s)-1].Day:
			o.hit("reach.after-series")
		case lo == hi && want == lo:
			o.hit("reach.exact-or-flat")
		default:
			o.hit("reach.interpolated")
		}
	case "polygonfile":
		lo, hi := float64(min(o.w.GWHi, o.w.GWLo)), float64(max(o.w.GWHi, o.w.GWLo))
		if !finite(g.GRW) || g.GRW < lo-1e-9 || g.GRW > hi+1e-9 {
			o.violate("minmax", "level-outside-given-interval", zeit, fmt.Sprintf("%s: groundwater level %.9g dm leaves the interval [%.6g, %.6g] given in the polygon file", d.ISO(), g.GRW, lo, hi), nil)
		}
		if hi > lo {
			o.hit("reach.oscillating")
		}
	}
}

func (o *c20Oracle) Finish(out *RunOutcome, res *Result) {
	if o.w.Cfg.GroundWater == "polygonfile" && out != nil && out.Success {
		lo, hi := float64(min(o.w.GWHi, o.w.GWLo)), float64(max(o.w.GWHi, o.w.GWLo))
		mean := (lo + hi) / 2
		// over every complete calendar year the level is above and below the mean and averages to it
		byYear := map[int][]float64{}
		for d, v := range o.levels {
			byYear[Day(d).Year()] = append(byYear[Day(d).Year()], v)
		}
		var years []int
		for y := range byYear {
			years = append(years, y)
		}
		sort.Ints(years)
		for _, y := range years {
			vs := byYear[y]
			if len(vs) < 365 || hi == lo {
				continue
			}
			above, below, sum := 0, 0, 0.0
			for _, v := range vs {
				sum += v
				if v > mean {
					above++
				} else if v < mean {
					below++
				}
			}
			if above < 120 || below < 120 {
				o.violate("minmax", "level-does-not-oscillate-around-mean", 0, fmt.Sprintf("year %d: level above the mean of the two given levels on %d days, below on %d days", y, above, below), nil)
			}
			if math.Abs(sum/float64(len(vs))-mean) > 0.03*(hi-lo)+1e-9 {
				o.violate("minmax", "yearly-mean-level-off", 0, fmt.Sprintf("year %d: mean level %.6g, mean of the two given levels %.6g (amplitude %.4g)", y, sum/float64(len(vs)), mean, (hi-lo)/2), nil)
			}
			o.hit("reach.full-year-oscillation")
		}
		// the phase shift is configured in days of the calendar year: the level is a function of the day of the year and
		// repeats from year to year (history clause: no drift however many year changes the run has been through)
		var ds []int
		for d := range o.levels {
			ds = append(ds, d)
		}
		sort.Ints(ds)
		firstAt := map[int]int{}
		for _, d := range ds {
			doy := Day(d).YearDay()
			f, ok := firstAt[doy]
			if !ok {
				firstAt[doy] = d
				continue
			}
			o.hit("reach.day-of-year-revisited")
			if a, b := o.levels[f], o.levels[d]; math.Abs(a-b) > 1e-9 {
				o.violate("minmax", "level-of-a-calendar-day-drifts-from-year-to-year", d, fmt.Sprintf("%s: level %.9g dm, on the same day of the year in %d it was %.9g (given levels %.6g / %.6g, phase %d)", Day(d).ISO(), b, Day(f).Year(), a, lo, hi, o.w.Cfg.GWPhase), nil)
				break
			}
		}
	}
	o.flush(res)
}

func execC20(sc *Scenario, env *Env) *Result {
	w := sc.World
	o := &c20Oracle{w: w, levels: map[int]float64{}}
	o.init("C20")
	res, out := runTrajectory(sc, env, nil, []Oracle{o}, nil)
	if w.Cfg.GroundWater != "polygonfile" || out == nil || !out.Success || res.Status != "ok" {
		return res
	}
	// metamorphic: a phase shift of k days shifts the curve by k days within a year
	k := 1 + int(sc.Seed+uint64(sc.Idx))%90
	sc2 := cloneScenario(sc)
	sc2.World.Cfg.GWPhase = w.Cfg.GWPhase + k
	o2 := &c20Oracle{w: sc2.World, levels: map[int]float64{}}
	o2.init("C20")
	res2, out2 := runTrajectory(sc2, env, nil, []Oracle{o2}, nil)
	if out2 == nil || !out2.Success {
		return res
	}
	res.Violations = append(res.Violations, res2.Violations...)
	var ds []int
	for d := range o2.levels {
		ds = append(ds, d)
	}
	sort.Ints(ds)
	for _, d := range ds {
		if Day(d).Year() != Day(d+k).Year() {
			continue
		}
		a, ok := o.levels[d+k]
		if !ok {
			continue
		}
		if b := o2.levels[d]; math.Abs(a-b) > 1e-9 {
			res.Violations = append(res.Violations, Violation{Prop: "C20", Oracle: "phase", Class: "phase-shift-is-not-a-shift-in-days", Day: Day(d).ISO(),
				Detail: fmt.Sprintf("with the phase increased by %d days the level on %s is %.9g, with the original phase the level %d days later is %.9g", k, Day(d).ISO(), b, k, a)})
			break
		}
		res.add("reach.phase-pairs", 1)
	}
	if len(res.Violations) > 0 {
		res.Status = "violation"
	}
	return res
}

func init() {
	register(&CheckDef{
		Prop: "C15", Level: "exploration",
		Gen: func(r *RNG, idx int, tier string) *Scenario {
			p := DefaultProfile()
			p.MinYears, p.MaxYears = 1, 3
			p.GWModes = []string{"soilfile", "polygonfile", "gwTimeSeries", "gwTimeSeries"}
			p.AllowPTF = true
			p.AllowPeat = true
			p.ShallowGW = 0.6
			p.Storms = 0.1
			p.BareProb = 0.6
			w := GenWorld(r.Sub("world", 0), p, paramTables)
			if idx%3 == 0 {
				// a few days only: many more soils per second
				w.Cfg.End = w.Start() + Day(r.Range(3, 40))
				fixAnnual(w)
			}
			if w.Cfg.GroundWater == "gwTimeSeries" {
				// histories that revisit earlier levels, with plateaus
				n := w.Soil.N()
				var s []GWPoint
				d := w.Start() - Day(r.Range(0, 60))
				levels := []float64{round(r.FRange(0.5, float64(n)+2), 1), round(r.FRange(0.5, float64(n)+2), 1), float64(r.Range(1, n+3))}
				for d < w.Cfg.End+30 {
					lv := levels[r.Intn(len(levels))]
					s = append(s, GWPoint{Day: d, Level: lv})
					d += Day(r.Range(1, 60))
					if r.Bool(0.3) {
						s = append(s, GWPoint{Day: d, Level: lv}) // plateau
						d += Day(r.Range(1, 40))
					}
				}
				w.GWSeries = s
			}
			if idx%10 == 7 && w.Cfg.PTF > 0 {
				// corners of the admissible texture triangle with the extremes of the organic carbon range
				for i := range w.Soil.Horizons {
					h := &w.Soil.Horizons[i]
					switch r.Intn(4) {
					case 0:
						h.Clay, h.Silt = r.Range(5, 7), r.Range(86, 90)
					case 1:
						h.Clay, h.Silt = r.Range(5, 8), r.Range(7, 10)
					case 2:
						h.Clay, h.Silt = r.Range(85, 90), 5
					default:
						h.Clay, h.Silt = r.Range(5, 60), r.Range(5, 35)
					}
					h.Sand = 100 - h.Clay - h.Silt
					h.Corg = r.PickF([]float64{0, 0.05, 0.1, 0.5, 3, 6})
				}
			}
			return &Scenario{Prop: "C15", Kind: "single", World: w, Bug: &BuggifySpec{Off: true}}
		},
		Exec:  execC15,
		Quick: 2400, Thorough: 80000,
		NonTrivial: func(res *Result) bool { return res.Status != "crash" && res.Status != "invalid" },
		Rule:       "one generated soil per evaluation over every parameter route (texture table x bulk-density class x C_org x stones; explicit FC/WP/PS; four transfer functions over sand/silt/clay triples with >= 5 % each and <= 85 % sand, pore volume set above the field capacity the system itself derives in a first pass) and every groundwater regime (constant, sinusoid, series that revisit levels and hold plateaus); every simulated day, after the groundwater update: ordering of WP/FC/PV per layer, threshold between WP and FC in the top layer, FC = PV for layers entirely below the table, and the history clause: a level seen before gives bitwise the parameters it gave then",
		ReachKeys:  []string{"route.table", "route.explicit", "route.ptf1", "route.ptf2", "route.ptf3", "route.ptf4", "reach.layer-below-table", "reach.level-changed", "reach.level-revisited"},
		Assumptions: []string{
			"texture percentages are integers (the soil file's precision); the continuous domain of the transfer functions is sampled on that grid",
			"for the transfer-function routes the soil file's pore volume is raised above the field capacity read back from the system in a first pass (no formula is mirrored)",
		},
	})
	register(&CheckDef{
		Prop: "C20", Level: "exploration",
		Gen: func(r *RNG, idx int, tier string) *Scenario {
			p := DefaultProfile()
			p.MinYears, p.MaxYears = 1, 4
			p.GWModes = []string{"gwTimeSeries", "gwTimeSeries", "polygonfile"}
			p.ShallowGW = 0.5
			p.Storms = 0.1
			p.BareProb = 0.7
			w := GenWorld(r.Sub("world", 0), p, paramTables)
			if w.Cfg.GroundWater == "gwTimeSeries" {
				n := w.Soil.N()
				start, end := w.Start(), w.Cfg.End
				var s []GWPoint
				// query window before / inside / after the covered span
				var d Day
				switch r.Intn(4) {
				case 0:
					d = end + Day(r.Range(1, 300)) // series entirely after the run
				case 1:
					d = start - Day(r.Range(400, 3000)) // may end before the run starts
				default:
					d = start - Day(r.Range(-300, 300))
				}
				k := r.Range(1, 60)
				if r.Bool(0.1) {
					k = r.Range(200, 400)
				}
				wlo, whi := w.DateWindow()
				if d < wlo+1 {
					d = wlo + 1
				}
				for i := 0; i < k && d < whi; i++ {
					lv := round(r.FRange(0.3, float64(n)+25), r.Intn(4))
					if r.Bool(0.2) && len(s) > 0 {
						lv = s[r.Intn(len(s))].Level
					}
					s = append(s, GWPoint{Day: d, Level: lv})
					d += Day(r.PickI([]int{1, 1, 2, 7, 30, 100, r.Range(1, 800)}))
				}
				w.GWSeries = s
			} else {
				n := w.Soil.N()
				a, b := r.Range(1, n+10), r.Range(1, n+10)
				w.GWHi, w.GWLo = min(a, b), max(a, b)
				w.Cfg.GWPhase = r.Range(0, 359)
				if r.Bool(0.25) {
					w.Cfg.GWPhase = r.PickI([]int{0, 0, 1, 80, 180, 359}) // boundary phases, the documented default
				}
			}
			return &Scenario{Prop: "C20", Kind: "single", World: w, Bug: &BuggifySpec{Off: true}}
		},
		Exec:  execC20,
		Quick: 2000, Thorough: 60000,
		NonTrivial: func(res *Result) bool {
			return res.Status == "ok" && (res.Stats["reach.interpolated"] > 0 || res.Stats["reach.phase-pairs"] > 0 || res.Stats["reach.before-series"] > 0 || res.Stats["reach.after-series"] > 0)
		},
		Rule:      "one generated world per evaluation: series mode with ascending series of 1-400 points, gaps of 1-800 days, the simulated window before / inside / after the covered span, or min/max mode with arbitrary level pairs and phases; reference model = own linear interpolation over the generated (date, level) list with nearest value outside; the level the model uses every day (probe after the groundwater update) must equal it; min/max mode: level inside the given interval, above and below the mean in every full year, yearly mean close to the mean, and a second run with the phase increased by k days must reproduce the first run's level k days later",
		ReachKeys: []string{"reach.interpolated", "reach.exact-or-flat", "reach.before-series", "reach.after-series", "reach.oscillating", "reach.full-year-oscillation", "reach.phase-pairs"},
		Assumptions: []string{
			"series levels are written with up to 3 decimals and parsed back exactly",
			"yearly mean tolerance 3 % of the interval width (the curve's period is not exactly one calendar year)",
		},
	})
}
