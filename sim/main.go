//go:debug asynctimerchan=0

package main

// Entry point of the simulator binary (a test binary of the shipped package
// main, so that the unexported batch dispatcher is reachable and
// testing/synctest is available). Modes, selected by VERIF_MODE:
//
//   orch    orchestrate a check: spawn workers, aggregate, minimise, evidence
//   worker  execute a range of scenario indices, write JSONL results
//   one     execute one explicit scenario file (replay / minimisation candidate)

import (
	"bufio"
	"encoding/json"
	"fmt"
	"os"
	"runtime/debug"
	"runtime/pprof"
	"strconv"
	"testing"
	"time"
)

var theT *testing.T

func envInt(k string, def int) int {
	if v := os.Getenv(k); v != "" {
		if n, err := strconv.Atoi(v); err == nil {
			return n
		}
	}
	return def
}

func envU64(k string, def uint64) uint64 {
	if v := os.Getenv(k); v != "" {
		if n, err := strconv.ParseUint(v, 10, 64); err == nil {
			return n
		}
		if n, err := strconv.ParseInt(v, 10, 64); err == nil {
			return uint64(n)
		}
	}
	return def
}

func TestVerif(t *testing.T) {
	theT = t
	mode := os.Getenv("VERIF_MODE")
	switch mode {
	case "orch":
		os.Exit(orchestrate())
	case "worker":
		os.Exit(workerMain())
	case "one":
		os.Exit(oneMain())
	case "ref":
		os.Exit(refMain())
	case "":
		t.Skip("VERIF_MODE not set")
	default:
		fmt.Fprintln(os.Stderr, "unknown VERIF_MODE", mode)
		os.Exit(2)
	}
}

// scenarioFor derives scenario idx of a check from the seed: one sub-stream per index.
func scenarioFor(cd *CheckDef, seed uint64, idx int, tier string) *Scenario {
	r := NewRNG(seed).Sub(cd.Prop, uint64(idx))
	sc := cd.Gen(r, idx, tier)
	sc.Prop = cd.Prop
	sc.Seed = seed
	sc.Idx = idx
	return sc
}

func setupEnv() (*Env, error) {
	env, err := NewEnv()
	if err != nil {
		return nil, err
	}
	paramTables = env.Tables
	return env, nil
}

func workerMain() int {
	prop := os.Getenv("VERIF_PROP")
	cd := checks[prop]
	if cd == nil {
		fmt.Fprintln(os.Stderr, "unknown property", prop)
		return 2
	}
	seed := envU64("VERIF_SEED", 1)
	tier := os.Getenv("VERIF_TIER")
	from, to := envInt("VERIF_FROM", 0), envInt("VERIF_TO", 0)
	genTotal, genRaceFrac = envInt("VERIF_TOTAL", 0), cd.RaceFrac
	outPath := os.Getenv("VERIF_OUT")
	env, err := setupEnv()
	if err != nil {
		fmt.Fprintln(os.Stderr, "env:", err)
		return 2
	}
	defer env.Close()
	f, err := os.Create(outPath)
	if err != nil {
		fmt.Fprintln(os.Stderr, err)
		return 2
	}
	defer f.Close()
	if pp := os.Getenv("VERIF_CPUPROFILE"); pp != "" {
		if pf, err := os.Create(pp); err == nil {
			pprof.StartCPUProfile(pf)
			defer pprof.StopCPUProfile()
		}
	}
	bw := bufio.NewWriter(f)
	for idx := from; idx < to; idx++ {
		fmt.Fprintf(bw, "{\"start\":%d}\n", idx)
		bw.Flush()
		sc := scenarioFor(cd, seed, idx, tier)
		t0 := time.Now()
		res := safeExec(cd, sc, env)
		res.Idx = idx
		if res.WallMS == 0 {
			res.WallMS = nowMS(t0)
		}
		if res.Status == "violation" || idx == from {
			res.Sample = sc.JSON()
		}
		b, err := json.Marshal(res)
		if err != nil {
			sanitizeResult(res)
			res.Note += " [result sanitised: " + err.Error() + "]"
			b, _ = json.Marshal(res)
		}
		bw.Write(b)
		bw.WriteByte('\n')
		bw.Flush()
		os.RemoveAll(env.Scratch + "/" + fmt.Sprintf("s%05d", env.seq))
	}
	return 0
}

// oneMain executes the scenario in VERIF_SCENARIO and writes the result to VERIF_OUT.
func oneMain() int {
	b, err := os.ReadFile(os.Getenv("VERIF_SCENARIO"))
	if err != nil {
		fmt.Fprintln(os.Stderr, err)
		return 2
	}
	var sc Scenario
	if err := json.Unmarshal(b, &sc); err != nil {
		fmt.Fprintln(os.Stderr, "scenario:", err)
		return 2
	}
	cd := checks[sc.Prop]
	if cd == nil {
		fmt.Fprintln(os.Stderr, "unknown property", sc.Prop)
		return 2
	}
	env, err := setupEnv()
	if err != nil {
		fmt.Fprintln(os.Stderr, "env:", err)
		return 2
	}
	defer env.Close()
	fmt.Fprintf(os.Stderr, "start\n")
	res := safeExec(cd, &sc, env)
	out, err := json.Marshal(res)
	if err != nil {
		sanitizeResult(res)
		out, _ = json.Marshal(res)
	}
	if p := os.Getenv("VERIF_OUT"); p != "" {
		os.WriteFile(p, out, 0o644)
	} else {
		fmt.Println(string(out))
	}
	return 0
}

// sanitizeResult replaces non-finite numbers (JSON cannot carry them) by large sentinels.
func sanitizeResult(r *Result) {
	fix := func(m map[string]float64) {
		for k, v := range m {
			if v != v {
				m[k] = -9.99e99
			} else if v > 1e300 {
				m[k] = 9.99e99
			} else if v < -1e300 {
				m[k] = -9.98e99
			}
		}
	}
	fix(r.Stats)
	for i := range r.Violations {
		fix(r.Violations[i].Values)
	}
}

// safeExec turns a panic of the harness itself into a crash result (exit 2 territory, never a violation).
func safeExec(cd *CheckDef, sc *Scenario, env *Env) (res *Result) {
	defer func() {
		if r := recover(); r != nil {
			res = &Result{Idx: sc.Idx, Status: "crash", Note: fmt.Sprintf("harness panic: %v @ %s", r, shortPanic(string(debug.Stack())))}
		}
	}()
	return cd.Exec(sc, env)
}
