package main

// C04 — every simulated day is driven by the weather record of exactly that
// date (after the documented normalisations only); a weather input that does
// not cover a simulated day ends the run with an error.

import (
	"fmt"
	"math"
	"os"
	"path/filepath"

	"github.com/zalf-rpm/Hermes2Go/hermes"
)

type c04Oracle struct {
	obase
	w        *World
	ww       *WeatherWorld
	root     string
	days     []int // simulated days seen by the probe, in order
	deleted  bool
	lastYear int
}

func near(a, b float64) bool { return math.Abs(a-b) <= 1e-9+1e-12*math.Abs(b) }

// covered reports whether the materialised input holds a record for day d at the time the model reads it.
func (o *c04Oracle) covered(d Day) bool {
	if _, ok := o.ww.At(d); !ok {
		return false
	}
	f := o.w.WxFault
	if f == nil {
		return true
	}
	switch f.Kind {
	case "end-early":
		return d <= f.Day
	case "torn-tail":
		return d < f.Day // the record of f.Day is cut in half
	case "start-late":
		return d >= f.Day
	case "gap":
		if (f.Day + 1).Year() != f.Day.Year() {
			return d != f.Day // the last record of a year is missing: that year merely ends a day early
		}
		if o.w.Cfg.WeatherLayout == 0 {
			return d.Year() != f.Day.Year() // a year file with a gap inside is unusable as a whole
		}
		return d != f.Day
	case "year-missing", "year-empty":
		return d.Year() != f.Day.Year()
	case "delete-at":
		// one file per year, loaded on the first simulated day of the year: gone if deleted before that day
		first := DayOf(f.Year, 1, 1)
		if first < o.w.Start() {
			first = o.w.Start()
		}
		return !(d.Year() == f.Year && f.Day < first)
	}
	return true
}

func (o *c04Oracle) expectOptional(d Day, pick func(r WRec) float64) (want float64, defined bool) {
	rec, _ := o.ww.At(d)
	v := pick(rec)
	none := o.ww.None
	if v != none {
		return v, true
	}
	// sentinel: mean of the two adjacent days when both are present in the data the model has loaded
	p, okp := o.ww.At(d - 1)
	n, okn := o.ww.At(d + 1)
	if !okp || !okn || !o.covered(d-1) || !o.covered(d+1) || pick(p) == none || pick(n) == none {
		return 0, false
	}
	if o.w.Cfg.WeatherLayout == 0 && ((d-1).Year() != d.Year() || (d+1).Year() != d.Year()) {
		return 0, false // the neighbour lives in another year file, which is not loaded at the same time
	}
	if d.Year() < o.w.Cfg.StartYear || (d-1).Year() < o.w.Cfg.StartYear || (d+1).Year() > o.w.Cfg.End.Year() {
		return 0, false
	}
	return (pick(p) + pick(n)) / 2, true
}

func (o *c04Oracle) Probe(pt string, zeit, subd int, wdt float64, g *G, w *hermes.WaterSharedVars, n *hermes.NitroSharedVars, c *hermes.CropSharedVars) {
	if pt != "daystart" {
		return
	}
	d := Day(zeit)
	o.days = append(o.days, zeit)
	// dynamic fault: the file of a later year disappears while the run is under way
	if f := o.w.WxFault; f != nil && f.Kind == "delete-at" && !o.deleted && zeit >= int(f.Day) {
		o.deleted = true
		p := filepath.Join(o.root, "weather", "wx", "MET_"+o.w.FCode+"."+yearExt(f.Year))
		if os.Remove(p) == nil {
			o.hit("fault.year-file-deleted-mid-run")
		}
	}
	rec, ok := o.ww.At(d)
	if !ok || !o.covered(d) {
		return // the coverage oracle (Finish) deals with days the input does not cover
	}
	ti := g.TAG.Index
	if ti+1 != d.YearDay() {
		o.violate("lock-step", "day-of-year-index-out-of-step-with-calendar", zeit, fmt.Sprintf("the model's day-of-year index is %d on %s (day-of-year %d)", ti+1, d.ISO(), d.YearDay()), nil)
		return
	}
	if y := 1900 + g.J; y != d.Year() {
		o.violate("lock-step", "year-counter-out-of-step-with-calendar", zeit, fmt.Sprintf("the model's year counter is %d on %s", y, d.ISO()), nil)
		return
	}
	if d.Year() != o.lastYear {
		if o.lastYear != 0 {
			o.hit("reach.year-rollover")
		}
		o.lastYear = d.Year()
	}
	lay := o.w.Cfg.WeatherLayout
	cmp := func(name string, got, want float64) {
		if !near(got, want) {
			o.violate("consumption", "consumed-value-differs-from-record:"+name, zeit,
				fmt.Sprintf("%s: the model uses %s = %.9g, the record of that date gives %.9g (layout %d)", d.ISO(), name, got, want, lay),
				map[string]float64{"got": got, "want": want})
		}
	}
	wantT := rec.Tavg
	if lay == 2 {
		wantT = (rec.Tmin + rec.Tmax) / 2
	}
	cmp("mean temperature", g.TEMP[ti], wantT)
	tmin, tmax := rec.Tmin, rec.Tmax
	cmp("minimum temperature", g.TMIN[ti], tmin)
	cmp("maximum temperature", g.TMAX[ti], tmax)
	cmp("relative humidity", g.RH[ti], rec.RH)
	wantRad := 0.0
	if o.ww.Spec.HasRad && rec.Rad != o.ww.None {
		wantRad = rec.Rad / 2
	}
	cmp("PAR (half of global radiation)", g.RAD[ti], wantRad)
	if !(near(g.WIND[ti], rec.Wind) || near(g.WIND[ti], math.Max(rec.Wind, 0.5))) {
		cmp("wind", g.WIND[ti], rec.Wind)
	}
	if rec.Wind < 0.5 {
		o.hit("reach.wind-below-floor")
	}
	// precipitation mm -> cm, optional monthly correction
	_, m, _ := d.YMD()
	f1 := 1.0
	f2 := 1.0
	if o.w.Cfg.Preco {
		f1 = precoVals[m-1]
		_, m2, _ := (d + 1).YMD()
		f2 = precoVals[m2-1]
	}
	rain := g.REGENdaily
	if !(near(rain, rec.Rain/10*f1) || (isLeap(d.Year()) && d.YearDay() >= 60 && near(rain, rec.Rain/10*f2))) {
		cmp("precipitation (cm)", rain, rec.Rain/10*f1)
	}
	if o.w.Cfg.Preco && rec.Rain > 0 {
		o.hit("reach.precipitation-correction")
	}
	// optional columns
	if o.ww.Spec.HasSun {
		if want, ok := o.expectOptional(d, func(r WRec) float64 { return r.Sun }); ok {
			cmp("sunshine hours", g.SUND[ti], want)
			if rec.Sun == o.ww.None {
				o.hit("reach.sentinel-filled")
				if d.YearDay() == 1 || (d+1).YearDay() == 1 {
					o.hit("reach.sentinel-at-year-boundary")
				}
			}
		}
	}
	if o.ww.Spec.HasVerd {
		if want, ok := o.expectOptional(d, func(r WRec) float64 { return r.Verd }); ok && (want > 0 || lay == 0) {
			cmp("saturation deficit", g.VERD[ti], want)
			if rec.Verd == o.ww.None {
				o.hit("reach.sentinel-filled")
				if d.YearDay() == 1 || (d+1).YearDay() == 1 {
					o.hit("reach.sentinel-at-year-boundary")
				}
			}
		}
	}
	if lay == 0 {
		cmp("reference ET", g.ETNULL[ti], rec.ET0)
	}
	if d.YearDay() == 366 {
		o.hit("reach.leap-day-366")
	}
	if d.Year() > o.w.Cfg.StartYear && o.ww.First.Year() < o.w.Cfg.StartYear {
		o.hit("reach.series-starts-before-start-year")
	}
}

func (o *c04Oracle) Finish(out *RunOutcome, res *Result) {
	defer o.flush(res)
	if out == nil {
		return
	}
	w := o.w
	start, end := w.Start(), w.Cfg.End
	firstUncovered := Day(0)
	for d := start; d <= end; d++ {
		if !o.covered(d) {
			firstUncovered = d
			break
		}
	}
	// echo in the daily result file: the record printed under date D carries the weather of D
	st := parseStream(findStream(out.Disk, "V", outIDWorld(w)), w.Cfg.ResultFormat == 1, 1)
	cA, cT, cR := st.col("AKTUELL"), st.col("TEMPdaily"), st.col("REGENdaily")
	lastRec := Day(0)
	if cA >= 0 && cT >= 0 && cR >= 0 {
		for _, rec := range st.Recs {
			if len(rec) <= cR {
				continue
			}
			d, err := ParseOutDate(rec[cA], w.Cfg.DateFormat, w.Cfg.DivideCentury)
			if err != nil {
				o.violate("echo", "unparsable-output-date", 0, "daily record with date "+rec[cA], nil)
				break
			}
			lastRec = d
			wr, ok := o.ww.At(d)
			if !ok || !o.covered(d) {
				continue
			}
			wantT := wr.Tavg
			if w.Cfg.WeatherLayout == 2 {
				wantT = (wr.Tmin + wr.Tmax) / 2
			}
			if got, ok := atof(rec[cT]); ok && !near(got, wantT) {
				o.violate("echo", "echoed-temperature-differs-from-record", int(d), fmt.Sprintf("daily record dated %s echoes mean temperature %.9g, the weather record of that date has %.9g", d.ISO(), got, wantT), nil)
				break
			}
		}
	}
	if firstUncovered == 0 {
		// everything covered: the run must succeed and simulate to the end date
		// (a gap elsewhere in a file that is read as a whole may legitimately end the run: "has a gap")
		gapElsewhere := w.WxFault != nil && w.WxFault.Kind == "gap" && w.Cfg.WeatherLayout != 0 && w.WxFault.Day.Year() >= w.Cfg.StartYear
		if !out.Success && gapElsewhere {
			o.hit("reach.gap-outside-period-rejected")
			return
		}
		if w.WxFault != nil && w.WxFault.Kind == "torn-tail" {
			// the file is cut in the middle of a record behind the simulated period: the run may give up (error, panic) or
			// complete - then on the records of its dates, which the consumption oracles above have checked
			o.hit("fault.torn-tail")
			if out.Success {
				o.hit("reach.torn-tail-behind-the-period-tolerated")
			}
			return
		}
		if !out.Success && out.Panic == "" {
			o.violate("coverage", "covered-run-fails", 0, "the weather input covers every simulated day, yet the run ended with: "+out.Err, nil)
		}
		if out.Success && len(o.days) > 0 && (o.days[0] != int(start) || o.days[len(o.days)-1] != int(end)) {
			o.violate("coverage", "simulated-period-differs", 0, fmt.Sprintf("the run simulated %s..%s, configured %s..%s", Day(o.days[0]).ISO(), Day(o.days[len(o.days)-1]).ISO(), start.ISO(), end.ISO()), nil)
		}
		return
	}
	kind := ""
	if w.WxFault != nil {
		kind = w.WxFault.Kind
		o.hit("fault." + kind)
	}
	if out.Success {
		o.violate("coverage", "uncovered-day-simulated-without-error:"+kind, int(firstUncovered),
			fmt.Sprintf("the weather input has no record for %s (fault %s, layout %d) but the run completed without an error", firstUncovered.ISO(), kind, w.Cfg.WeatherLayout), nil)
		return
	}
	if out.Panic != "" {
		return // reported by the run-completes oracle
	}
	if lastRec >= firstUncovered {
		o.violate("coverage", "records-written-past-first-uncovered-day:"+kind, int(firstUncovered),
			fmt.Sprintf("first day without weather is %s, yet the daily file holds a record dated %s (run error: %s)", firstUncovered.ISO(), lastRec.ISO(), out.Err), nil)
	}
	o.hit("reach.uncovered-run-ended-with-error")
}

func c04OutputCfg() *OutputCfg {
	oc := defaultOutputCfg()
	oc.Daily = []OutCol{{Var: "AKTUELL", Fmt: "%s", Width: 12}, {Var: "TEMPdaily"}, {Var: "TMINdaily"}, {Var: "TMAXdaily"}, {Var: "RHdaily"}, {Var: "RADdaily"}, {Var: "WINDdaily"}, {Var: "REGENdaily"}}
	return &oc
}

func init() {
	register(&CheckDef{
		Prop: "C04", Level: "exploration",
		Gen: func(r *RNG, idx int, tier string) *Scenario {
			p := DefaultProfile()
			p.MaxYears = 5
			if idx%10 == 9 {
				p.MinYears, p.MaxYears = 12, 40
			}
			p.GWModes = []string{"soilfile"}
			p.Storms = 0.2
			p.BareProb = 0.5
			w := GenWorld(r.Sub("world", 0), p, paramTables)
			ws := &w.Weather
			start, end := w.Start(), w.Cfg.End
			span := int(end - start)
			// sentinels in the optional columns, biased to year boundaries and leap days
			if ws.HasSun || ws.HasVerd {
				for k := r.Range(0, 6); k > 0; k-- {
					d := start + Day(r.Range(0, span))
					switch r.Intn(4) {
					case 0:
						d = DayOf(d.Year(), 12, 31)
					case 1:
						d = DayOf(d.Year(), 1, 1)
					case 2:
						d = DayOf(d.Year(), 3, 1) - 1
					}
					if d < start || d > end {
						continue
					}
					kind := "sentinel_sun"
					if !ws.HasSun || (ws.HasVerd && r.Bool(0.5)) {
						kind = "sentinel_verd"
					}
					ws.Events = append(ws.Events, WeatherEvent{Day: d, Kind: kind})
				}
			}
			// input faults: 45 % of the scenarios
			if fsel := r.Intn(20); fsel < 9 {
				pos := func() Day {
					switch r.Intn(6) {
					case 0:
						return start
					case 1:
						return end
					case 2:
						return DayOf(start.Year()+r.Range(0, end.Year()-start.Year()), 12, 31)
					case 3:
						return DayOf(start.Year()+r.Range(0, end.Year()-start.Year()), 1, 1)
					case 4:
						y := start.Year() + r.Range(0, end.Year()-start.Year())
						if isLeap(y) {
							return DayOf(y, 2, 29)
						}
						return DayOf(y, 2, 28)
					}
					return start + Day(r.Range(-200, span+200))
				}
				kinds := []string{"end-early", "start-late", "gap"}
				if w.Cfg.WeatherLayout == 0 {
					kinds = []string{"end-early", "gap", "year-missing", "year-empty", "delete-at", "delete-at"}
				}
				f := &WxFault{Kind: r.PickS(kinds), Day: pos()}
				if f.Day < ws.FirstDay+1 {
					f.Day = ws.FirstDay + 1
				}
				if f.Day > ws.LastDay-1 {
					f.Day = ws.LastDay - 1
				}
				if r.Bool(0.12) {
					// a file cut in the middle of a record, mostly behind the simulated period
					f.Kind = "torn-tail"
					f.Day = end + Day(r.Range(3, 300))
					if r.Bool(0.25) {
						f.Day = pos()
					}
					if f.Day > ws.LastDay-1 {
						f.Day = ws.LastDay - 1
					}
					if f.Day < ws.FirstDay+2 {
						f.Day = ws.FirstDay + 2
					}
				}
				if f.Kind == "delete-at" {
					f.Day = start + Day(r.Range(0, span))
					f.Year = start.Year() + r.Range(0, end.Year()-start.Year()+1)
				}
				w.WxFault = f
			}
			return &Scenario{Prop: "C04", Kind: "single", World: w, Bug: &BuggifySpec{Off: true}}
		},
		Exec: func(sc *Scenario, env *Env) *Result {
			o := &c04Oracle{w: sc.World}
			o.init("C04")
			o.ww = BuildWeather(&sc.World.Weather, sc.World.Cfg.NoneValue, sc.Grid)
			res, _ := runTrajectoryHook(sc, env, c04OutputCfg(), []Oracle{o}, nil, func(root string) { o.root = root })
			return res
		},
		Quick: 2000, Thorough: 60000,
		MaxBadShare: 0.6,
		NonTrivial: func(res *Result) bool {
			return res.Stats["reach.year-rollover"] > 0 || res.Stats["reach.uncovered-run-ended-with-error"] > 0
		},
		Rule:      "one generated world per evaluation: a weather world (map date -> record) materialised in one of the three layouts, any first day, 1-40 years, sentinels in optional columns (biased to 31 Dec / 1 Jan / leap day), wind below the floor, series starting before the start year; 45 % carry one input fault (series ends early, starts late, has a gap, a year file is missing, a year file disappears at a simulated date). The values the model holds for each simulated day are compared with the record of that date; the echo in the daily result file likewise; a run whose input does not cover a simulated day must end with an error and write no record on or after that day; a covered run must succeed. Non-trivial = the run crossed a year boundary or ended with the demanded error",
		ReachKeys: []string{"reach.year-rollover", "reach.leap-day-366", "reach.sentinel-filled", "reach.sentinel-at-year-boundary", "reach.wind-below-floor", "reach.precipitation-correction", "reach.series-starts-before-start-year", "reach.uncovered-run-ended-with-error", "fault.end-early", "fault.start-late", "fault.gap", "fault.year-missing", "fault.year-empty", "fault.delete-at", "fault.year-file-deleted-mid-run", "fault.torn-tail"},
		Assumptions: []string{
			"invalid-status scenarios are the fault population (a run that ends with the demanded error); they are checked, not skipped",
			"wind: raw value or max(raw, 0.5) accepted (the floor is applied where wind is consumed)",
			"precipitation correction: in leap years the factor of the following calendar day's month is accepted as well (the model classifies months by non-leap day numbers)",
			"a sentinel is checked only when both neighbours are present, non-sentinel and loaded together with it (layout 0 loads one year at a time)",
		},
	})
}
