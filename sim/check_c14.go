package main

// C14 — configuration precedence: batch line over project configuration over
// documented defaults; unknown keys ignored; argument order irrelevant.
// Many lines of ONE project run in one session under the seeded scheduler: the
// project's config.yml is pooled and shared, so a leak of one line's effective
// configuration into a concurrent line would show.

import (
	"fmt"
	"math"
	"os"
	"path/filepath"
	"sort"
	"strings"
	"time"
)

// documented defaults (README / generated default config) of the keys the check may leave out of the file
var c14Defaults = map[string]float64{
	"NDeposition": 20, "Latitude": 52.52, "Altitude": 0, "OrganicMatterMineralProportion": 0.13, "KcFactorBareSoil": 0.4,
	"AnnualAverageTemperature": 8.7, "ETpot": 3, "CO2method": 2, "CO2concentration": 360, "Fertilization": 100, "GroundWaterPhase": 80,
}

// key -> echo variable of the daily output and scale (echo = value * scale)
var c14Echo = map[string]struct {
	v     string
	scale float64
}{
	"NDeposition": {"DEPOS", 1}, "Latitude": {"LAT", 1}, "Altitude": {"ALTI", 1}, "OrganicMatterMineralProportion": {"NAKT", 1}, "KcFactorBareSoil": {"FKB", 1},
	"AnnualAverageTemperature": {"TBASE", 1}, "ETpot": {"ETMETH", 1}, "CO2method": {"CO2METH", 1}, "CO2concentration": {"CO2KONZ", 1}, "Fertilization": {"DUNGSZEN", 0.01},
	"GroundWaterPhase": {"GWPhase", 1}, "LeachingDepth": {"OUTN", 1},
}

func c14OutputCfg() *OutputCfg {
	oc := defaultOutputCfg()
	oc.Daily = []OutCol{{Var: "AKTUELL", Fmt: "%s", Width: 12}}
	var keys []string
	for k := range c14Echo {
		keys = append(keys, k)
	}
	sort.Strings(keys)
	for _, k := range keys {
		f := "%v"
		if k == "ETpot" || k == "CO2method" || k == "GroundWaterPhase" || k == "LeachingDepth" {
			f = "%d"
		}
		oc.Daily = append(oc.Daily, OutCol{Var: c14Echo[k].v, Fmt: f})
	}
	oc.Daily = append(oc.Daily, OutCol{Var: "REGENdaily"})
	return &oc
}

func (w *World) fileValue(key string) (float64, bool) {
	c := &w.Cfg
	switch key {
	case "NDeposition":
		return c.NDeposition, true
	case "Latitude":
		return c.Latitude, true
	case "Altitude":
		return c.Altitude, true
	case "OrganicMatterMineralProportion":
		return c.OrgMinProp, true
	case "KcFactorBareSoil":
		return c.KcBare, true
	case "AnnualAverageTemperature":
		return c.TBase, true
	case "ETpot":
		return float64(c.ETpot), true
	case "CO2method":
		return float64(c.CO2method), true
	case "CO2concentration":
		return c.CO2conc, true
	case "Fertilization":
		return c.Fertilization, true
	case "GroundWaterPhase":
		return float64(c.GWPhase), true
	case "LeachingDepth":
		return float64(c.LeachDepth), true
	}
	return 0, false
}

func genC14(r *RNG, idx int, tier string) *Scenario {
	p := batchProfile()
	p.MinYears, p.MaxYears = 1, 1
	p.GWModes = []string{"soilfile", "polygonfile"}
	p.AllowPTF = false
	p.ForceDaily = true
	w := GenWorld(r.Sub("world", 0), p, paramTables)
	if w.Cfg.NumHeader == 3 {
		w.Cfg.NumHeader = 2 // a third header line would overwrite altitude
	}
	w.Cfg.Preco = true // the correction file exists in every case; the switch itself is overridden per line
	w.Cfg.ResultExt = ""
	sc := &Scenario{Kind: "batch", Worlds: []*World{w}, Params: map[string]string{}}
	if idx%10 == 9 {
		// stratum: project without config.yml, history of invocations through the shipped binary
		sc.Params["stratum"] = "noconfig"
		sc.Params["noconfigseed"] = fmt.Sprint(r.U64())
		w.Cfg.Preco = false
		sc.Sched = &SchedSpec{Sub: r.U64(), Concurrency: 1, Policy: "fifo", RecordP: 1}
		return sc
	}
	// keys left out of the file: the documented default applies
	var omit []string
	for k := range c14Defaults {
		_ = k
	}
	dk := make([]string, 0, len(c14Defaults))
	for k := range c14Defaults {
		dk = append(dk, k)
	}
	sort.Strings(dk)
	for _, k := range dk {
		if r.Bool(0.25) {
			omit = append(omit, k)
		}
	}
	sc.Params["omit"] = strings.Join(omit, ",")
	n := w.Soil.N()
	span := int(w.Cfg.End - w.Start())
	gens := []func() string{
		func() string { return fmt.Sprintf("NDeposition=%d", r.PickI([]int{0, 7, 33, 60})) },
		func() string { return fmt.Sprintf("Latitude=%.2f", r.FRange(30, 65)) },
		func() string { return fmt.Sprintf("Altitude=%d", r.Range(0, 2000)) },
		func() string { return fmt.Sprintf("OrganicMatterMineralProportion=%.2f", r.FRange(0.05, 0.3)) },
		func() string { return fmt.Sprintf("KcFactorBareSoil=%.2f", r.FRange(0.3, 1)) },
		func() string { return fmt.Sprintf("AnnualAverageTemperature=%.1f", r.FRange(2, 18)) },
		func() string { return fmt.Sprintf("ETpot=%d", r.Range(2, 4)) },
		func() string { return fmt.Sprintf("CO2method=%d", r.Range(1, 3)) },
		func() string { return fmt.Sprintf("CO2concentration=%d", r.Range(300, 800)) },
		func() string { return fmt.Sprintf("Fertilization=%d", r.PickI([]int{0, 50, 80, 120, 200})) },
		func() string { return fmt.Sprintf("GroundWaterPhase=%d", r.Range(0, 359)) },
		func() string { return fmt.Sprintf("LeachingDepth=%d", r.Range(1, n)) },
		func() string { return fmt.Sprintf("OutputIntervall=%d", r.Range(1, 6)) },
		func() string { return fmt.Sprintf("ResultFileFormat=%d", r.Intn(2)) },
		func() string { return "ResultFileExt=" + r.PickS([]string{"out", "dat", "txt", "res2"}) },
		func() string { return "EndDate=" + FmtDate(w.Start()+Day(r.Range(30, span)), w.Cfg.DateFormat) },
		func() string { return "CorrectionPrecipitation=" + r.PickS([]string{"0", "1", "on", "off", "yes", "no", "true", "false"}) },
		func() string { return "CO2StomataInfluence=" + r.PickS([]string{"0", "1", "on", "off"}) },
		// keys that do not exist: ignored
		func() string { return r.PickS([]string{"NDepositon=55", "latitude=10", "Foo=bar", "ETPot=1", "Leachingdepth=1", "endDate=01012000", "outputIntervall=9"}) },
	}
	nl := r.Range(4, 16)
	for i := 0; i < nl; i++ {
		bl := BatchLine{World: 0}
		seen := map[string]bool{}
		for k := r.Range(0, 8); k > 0; k-- {
			a := gens[r.Intn(len(gens))]()
			key := a[:strings.IndexByte(a, '=')]
			if seen[key] {
				continue
			}
			seen[key] = true
			bl.Extra = append(bl.Extra, a)
		}
		sc.Lines = append(sc.Lines, bl)
	}
	// pairs: same overrides, other argument order
	if nl >= 2 {
		for k := 0; k < 2; k++ {
			src := sc.Lines[r.Intn(nl)]
			perm := append([]string{}, src.Extra...)
			for i := len(perm) - 1; i > 0; i-- {
				j := r.Intn(i + 1)
				perm[i], perm[j] = perm[j], perm[i]
			}
			sc.Lines = append(sc.Lines, BatchLine{World: 0, Extra: perm, Ref: 1})
		}
	}
	sp := &SchedSpec{Sub: r.U64(), Policy: r.PickS([]string{"random", "random", "fifo", "lifo", "starve"}), RecordP: r.PickF([]float64{1, 1.0 / 7, 1.0 / 30})}
	sp.Concurrency = r.Range(1, min(16, len(sc.Lines)))
	sp.NoPoolYield = r.Bool(0.15) // coarse stratum: no parking at pooled-file Gets
	sc.Sched = sp
	return sc
}

// c14LineArgs: the fixed arguments go first or last or in between (argument order must not matter)
func c14LineArgs(sc *Scenario, i int) []string {
	w := sc.Worlds[0]
	fixed := []string{"project=" + w.Loc, "plotNr=" + w.Plot, fmt.Sprintf("poligonID=L%02d", i), "fcode=" + w.FCode}
	ex := sc.Lines[i].Extra
	switch i % 3 {
	case 0:
		return append(fixed, ex...)
	case 1:
		return append(append([]string{}, ex...), fixed...)
	default:
		h := len(ex) / 2
		out := append([]string{}, ex[:h]...)
		out = append(out, fixed...)
		return append(out, ex[h:]...)
	}
}

func execC14(sc *Scenario, env *Env) *Result {
	if sc.Params["stratum"] == "noconfig" {
		return execC14NoConfig(sc, env)
	}
	t0 := time.Now()
	res := &Result{Idx: sc.Idx, Status: "ok"}
	w := sc.Worlds[0]
	oc := c14OutputCfg()
	root, err := materialiseBatch(sc, env, oc)
	if err != nil {
		res.Status, res.Note = "invalid", err.Error()
		return res
	}
	omit := map[string]bool{}
	for _, k := range strings.Split(sc.Params["omit"], ",") {
		if k != "" {
			omit[k] = true
		}
	}
	os.WriteFile(filepath.Join(root, "project", w.Loc, "config.yml"), []byte(w.ConfigYAML(omit)), 0o644)
	var lines []string
	for i := range sc.Lines {
		lines = append(lines, strings.Join(c14LineArgs(sc, i), " "))
	}
	disk := NewSimDisk()
	out := env.RunBatch(root, lines, sc.Sched, disk, true, 0, -1, 0)
	res.add("batches", 1)
	res.add("decisions", float64(len(out.Decisions)))
	if out.MaxParked >= 2 {
		res.add("reach.interleaved", 1)
	}
	res.Hash = out.TraceHash
	res.Digest = fmt.Sprintf("%s:%d:%s", out.TraceHash, len(out.Decisions), disk.Digest())
	viol := func(oracle, class, detail, line string) {
		for _, v := range res.Violations {
			if v.Class == class {
				return
			}
		}
		res.Violations = append(res.Violations, Violation{Prop: "C14", Oracle: oracle, Class: class, Detail: detail, Line: line})
	}
	if out.Panic != "" || out.Deadlock != "" || out.DecisionCap {
		viol("termination", "batch-did-not-complete", "panic/deadlock/decision cap: "+firstLine(out.Panic+out.Deadlock), "")
	}
	rep := parseDispatcher(out.Stdout)
	if rep.NumErrors > 0 {
		res.add("lines.failed", float64(rep.NumErrors))
	}
	for i := range sc.Lines {
		over := map[string]string{}
		for _, a := range sc.Lines[i].Extra {
			k := strings.IndexByte(a, '=')
			over[a[:k]] = a[k+1:]
		}
		id := fmt.Sprintf("L%02d%s", i, w.Plot)
		// effective values: defaults (+) file (+) line
		wantExt := "RES"
		style := w.Cfg.ResultFormat
		if v, ok := over["ResultFileFormat"]; ok {
			fmt.Sscan(v, &style)
		}
		if style == 1 {
			wantExt = "csv"
		}
		if v, ok := over["ResultFileExt"]; ok {
			wantExt = v
		}
		f := findStream(disk, "V", id)
		if f == nil {
			viol("files", "daily-file-missing", fmt.Sprintf("line %d (%s): no daily result file", i, lines[i]), fmt.Sprint(i))
			continue
		}
		if !strings.HasSuffix(f.Path, "."+wantExt) {
			viol("behaviour", "result-extension-differs", fmt.Sprintf("line %d (%s): result file %s, effective extension %q", i, lines[i], filepath.Base(f.Path), wantExt), fmt.Sprint(i))
		}
		st := parseStream(f, style == 1, 1)
		if len(st.Recs) == 0 {
			viol("files", "daily-file-empty", fmt.Sprintf("line %d (%s): no daily records (style %d)", i, lines[i], style), fmt.Sprint(i))
			continue
		}
		if got := strings.Contains(st.RawRecs[0], ","); got != (style == 1) {
			viol("behaviour", "result-style-differs", fmt.Sprintf("line %d (%s): csv style %v, effective ResultFileFormat %d", i, lines[i], got, style), fmt.Sprint(i))
		}
		for key, e := range c14Echo {
			want, inFile := w.fileValue(key)
			src := "file"
			if omit[key] {
				want, src = c14Defaults[key], "default"
				_ = inFile
			}
			if v, ok := over[key]; ok {
				fmt.Sscan(v, &want)
				src = "line"
			}
			ci := st.col(e.v)
			if ci < 0 || ci >= len(st.Recs[0]) {
				continue
			}
			got, ok := atof(st.Recs[0][ci])
			if !ok || math.Abs(got-want*e.scale) > 1e-9*math.Max(1, math.Abs(want)) {
				viol("precedence", "effective-value-differs:"+key, fmt.Sprintf("line %d (%s): %s is %s in the run, expected %v from the %s (file value %v, omitted from file: %v)", i, lines[i], key, st.Recs[0][ci], want*e.scale, src, func() float64 { x, _ := w.fileValue(key); return x }(), omit[key]), fmt.Sprint(i))
			}
			res.add("values.checked", 1)
			res.add("source."+src, 1)
		}
		// behavioural keys: interval and end date
		interval := w.Cfg.OutInterval
		if v, ok := over["OutputIntervall"]; ok {
			fmt.Sscan(v, &interval)
		}
		end := w.Cfg.End
		if v, ok := over["EndDate"]; ok {
			for d := w.Start(); d <= w.Cfg.End+1; d++ {
				if FmtDate(d, w.Cfg.DateFormat) == v {
					end = d
				}
			}
		}
		ca := st.col("AKTUELL")
		var ds []Day
		for _, rec := range st.Recs {
			if ca < 0 || ca >= len(rec) {
				break
			}
			if d, err := ParseOutDate(rec[ca], w.Cfg.DateFormat, w.Cfg.DivideCentury); err == nil {
				ds = append(ds, d)
			}
		}
		if len(ds) >= 2 && int(ds[1]-ds[0]) != interval {
			viol("behaviour", "output-interval-differs", fmt.Sprintf("line %d (%s): daily records %s, %s; effective interval %d", i, lines[i], ds[0].ISO(), ds[1].ISO(), interval), fmt.Sprint(i))
		}
		if len(ds) > 0 {
			lastWant := end - Day(int(end)%interval)
			annual := DayOf(end.Year(), w.Cfg.AnnualM, w.Cfg.AnnualD)
			if annual < end && ds[len(ds)-1] != lastWant {
				viol("behaviour", "end-date-differs", fmt.Sprintf("line %d (%s): last daily record %s, effective end date %s (interval %d)", i, lines[i], ds[len(ds)-1].ISO(), end.ISO(), interval), fmt.Sprint(i))
			}
		}
	}
	// on/off kind: the precipitation correction switch shows in the precipitation the run uses
	ww := BuildWeather(&w.Weather, w.Cfg.NoneValue, sc.Grid)
	for i := range sc.Lines {
		on := w.Cfg.Preco
		src := "file"
		for _, a := range sc.Lines[i].Extra {
			if strings.HasPrefix(a, "CorrectionPrecipitation=") {
				switch a[len("CorrectionPrecipitation="):] {
				case "1", "on", "yes", "true":
					on, src = true, "line"
				case "0", "off", "no", "false":
					on, src = false, "line"
				}
			}
		}
		style := w.Cfg.ResultFormat
		for _, a := range sc.Lines[i].Extra {
			if strings.HasPrefix(a, "ResultFileFormat=") {
				fmt.Sscan(a[len("ResultFileFormat="):], &style)
			}
		}
		st := parseStream(findStream(disk, "V", fmt.Sprintf("L%02d%s", i, w.Plot)), style == 1, 1)
		ca, cr := st.col("AKTUELL"), st.col("REGENdaily")
		if ca < 0 || cr < 0 {
			continue
		}
		checked := 0
		for _, rec := range st.Recs {
			if len(rec) <= cr || checked >= 5 {
				break
			}
			d, err := ParseOutDate(rec[ca], w.Cfg.DateFormat, w.Cfg.DivideCentury)
			wr, ok := ww.At(d)
			if err != nil || !ok || wr.Rain <= 0 {
				continue
			}
			_, m, _ := d.YMD()
			_, m2, _ := (d + 1).YMD()
			got, _ := atof(rec[cr])
			f1, f2 := 1.0, 1.0
			if on {
				f1, f2 = precoVals[m-1], precoVals[m2-1]
			}
			if !near(got, wr.Rain/10*f1) && !near(got, wr.Rain/10*f2) {
				viol("precedence", "effective-value-differs:CorrectionPrecipitation", fmt.Sprintf("line %d (%s): on %s the run uses %.6g cm precipitation for %.4g mm of rain; the correction switch is %v by the %s", i, lines[i], d.ISO(), got, wr.Rain, on, src), fmt.Sprint(i))
				break
			}
			checked++
			res.add("values.checked", 1)
			res.add("onoff.checked", 1)
		}
	}
	// argument order: a permuted copy of a line gives byte-identical streams
	for i := range sc.Lines {
		if sc.Lines[i].Ref == 0 {
			continue
		}
		// find the source line: same multiset of extras
		key := func(ex []string) string { s := append([]string{}, ex...); sort.Strings(s); return strings.Join(s, " ") }
		for j := 0; j < i; j++ {
			if sc.Lines[j].Ref == 0 && key(sc.Lines[j].Extra) == key(sc.Lines[i].Extra) {
				a := outputsOf(disk, fmt.Sprintf("L%02d%s", j, w.Plot))
				b := outputsOf(disk, fmt.Sprintf("L%02d%s", i, w.Plot))
				if d := diffFilesRenamed(a, b, fmt.Sprintf("L%02d", j), fmt.Sprintf("L%02d", i)); d != "" {
					viol("argument-order", "results-depend-on-argument-order", fmt.Sprintf("lines %d (%s) and %d (%s) differ only in argument order: %s", j, lines[j], i, lines[i], d), fmt.Sprint(i))
				}
				res.add("reach.permuted-pairs", 1)
				break
			}
		}
	}
	if len(res.Violations) > 0 {
		res.Status = "violation"
	}
	res.WallMS = nowMS(t0)
	return res
}

// diffFilesRenamed compares two lines' result files after mapping the output id of one to the other.
func diffFilesRenamed(a, b map[string][]byte, ida, idb string) string {
	ra := map[string][]byte{}
	for n, d := range a {
		ra[strings.Replace(n, ida, idb, 1)] = []byte(strings.ReplaceAll(string(d), ida, idb))
	}
	return diffFiles(ra, b)
}

func init() {
	register(&CheckDef{
		Prop: "C14", Level: "exploration",
		Gen:  genC14,
		Exec: execC14,
		Quick: 300, Thorough: 9000,
		Chunk:      5,
		NonTrivial: func(res *Result) bool { return res.Status != "invalid" && res.Status != "crash" && res.Stats["values.checked"] > 0 && res.Stats["reach.interleaved"] > 0 },
		Rule:       "one batch scenario per evaluation: 4-18 lines of ONE generated project in one session (its config.yml is pooled and shared), each with a random subset of key=value overrides (numeric, text, on/off kinds, keys that do not exist) in varying argument positions, a random subset of keys left out of the file, executed by the real dispatcher under the seeded scheduler; reference model defaults (+) file (+) line; observables: state echoes bound through the output configuration (12 keys) and behaviour (file extension, style, interval, end date); permuted copies of a line must give byte-identical streams; a tenth of the scenarios instead run a project WITHOUT config.yml through the shipped binary (every line carries the whole configuration; one line leaves 1-3 keys to their documented defaults): that line alone on a fresh project copy, after an earlier invocation whose line carried the keys, and as second line of one session must give byte-identical result files; non-trivial = values were compared and at least two runs were parked simultaneously",
		ReachKeys:  []string{"values.checked", "source.default", "source.file", "source.line", "reach.interleaved", "reach.permuted-pairs", "reach.project-without-config-file"},
		Assumptions: []string{
			"documented defaults = the values of the shipped default configuration for the eleven keys the check may leave out of the file",
			"keys without an echo (on/off switches) are exercised as overrides but judged only through the byte-identity of permuted pairs",
		},
	})
}
