package main

// C07 — N pools stay non-negative and finite; organic pool + mineralised
// counter change only through inputs and are preserved by tillage; dissolved
// fertiliser never exceeds applied fertiliser; uptake and fixation are credited
// to the crop exactly once per day whatever the number of sub-steps.

import (
	"fmt"
	"math"

	"github.com/zalf-rpm/Hermes2Go/hermes"
)

type orgSnap struct {
	slow, fast [21]float64 // pool + mineralised counter per layer
	sumSlow    float64
	sumFast    float64
	sumC1      float64
}

func takeOrg(g *G) orgSnap {
	var s orgSnap
	for z := 0; z < 21; z++ {
		s.slow[z], s.fast[z] = g.NAOS[z], g.NFOS[z]
		if z < len(g.MINAOS) {
			s.slow[z] += g.MINAOS[z]
			s.fast[z] += g.MINFOS[z]
		}
		s.sumSlow += s.slow[z]
		s.sumFast += s.fast[z]
		if z < g.N {
			s.sumC1 += g.C1[z]
		}
	}
	return s
}

type c07Oracle struct {
	obase
	w          *World
	pre        orgSnap
	prePESUM   float64
	preAUFNA   float64
	preNFIX    float64
	dayPESUM   float64 // sum over the day's N-routine calls of the change of crop N
	aufna0     float64
	nfix0      float64
	harvestDay bool
	day        int
	counters   map[string]float64
	prevOverwrite bool
	overwrite  bool
	steps      int
	wurzMorning int
	akfMorning  int
}

// inputWindow: may organic matter or fertiliser enter the pools on this day?
// (fertiliser: scheduled day .. +3, tillage likewise, harvest day of a crop, automatic management anywhere)
func (o *c07Oracle) inputDay(zeit int, g *G) (fert, till, harvest bool) {
	for _, e := range o.w.Fert {
		if zeit >= int(e.Day) && zeit <= int(e.Day)+3 {
			fert = true
		}
	}
	for _, e := range o.w.Till {
		if zeit >= int(e.Day) && zeit <= int(e.Day)+3 {
			till = true
		}
	}
	for _, e := range o.w.Rot {
		if zeit >= int(e.Harvest) && zeit <= int(e.Harvest)+1 {
			harvest = true
		}
	}
	if zeit == g.ERNTE[g.AKF.Index] {
		harvest = true
	}
	return
}

func (o *c07Oracle) nonneg(zeit int, where string, g *G) {
	chk := func(name string, v float64, lim float64) {
		if !finite(v) {
			o.violate("finite", "non-finite:"+name, zeit, fmt.Sprintf("%s is %v (%s)", name, v, where), nil)
		} else if v < lim {
			o.violate("non-negative", "negative:"+name, zeit, fmt.Sprintf("%s = %.12g < 0 (%s)", name, v, where), map[string]float64{"value": v})
		}
	}
	for z := 0; z < g.N; z++ {
		chk("C1", g.C1[z], 0)
	}
	for z := 0; z < 21; z++ {
		chk("NAOS", g.NAOS[z], 0)
		chk("NFOS", g.NFOS[z], 0)
		if z < len(g.MINAOS) {
			chk("MINAOS", g.MINAOS[z], 0)
			chk("MINFOS", g.MINFOS[z], 0)
		}
	}
	t := -tol(g.DSUMM, g.UMS)
	chk("DSUMM-UMS (undissolved fertiliser)", g.DSUMM-g.UMS, t)
	chk("NH4Sum-NH4UMS (un-nitrified ammonium)", g.NH4Sum-g.NH4UMS, -tol(g.NH4Sum, g.NH4UMS))
	chk("DSUMM", g.DSUMM, 0)
	chk("UMS", g.UMS, 0)
	chk("NH4Sum", g.NH4Sum, 0)
	chk("NH4UMS", g.NH4UMS, 0)
	chk("AUFNASUM", g.AUFNASUM, -1e-9)
	chk("DRAINLOSS", g.DRAINLOSS, -1e-9)
	chk("CUMDENIT", g.CUMDENIT, -1e-9)
	chk("N2onitsum", g.N2onitsum, -1e-9)
	chk("N2Odencum", g.N2Odencum, -1e-9)
	chk("NFIXSUM", g.NFIXSUM, -1e-9)
	if g.OUTN == g.N {
		chk("OUTSUM", g.OUTSUM, -1e-9)
	}
}

func (o *c07Oracle) Probe(pt string, zeit, subd int, wdt float64, g *G, w *hermes.WaterSharedVars, n *hermes.NitroSharedVars, c *hermes.CropSharedVars) {
	switch pt {
	case "daystart":
		o.day = zeit
		o.dayPESUM = 0
		o.steps = 0
		o.harvestDay = false
		o.overwrite = zeit == int(o.w.Meas.Day) || zeit == g.MESS[g.MZ-1]
		// cumulative counters never decrease between resets. The annual output zeroes leaching,
		// denitrification and both N2O counters together (recognised by exactly that signature);
		// a measurement day zeroes leaching and the fertiliser sums.
		annualReset := g.OUTSUM == 0 && g.CUMDENIT == 0 && g.N2onitsum == 0 && g.N2Odencum == 0
		cur := map[string]float64{"AUFNASUM": g.AUFNASUM, "DRAINLOSS": g.DRAINLOSS, "NFIXSUM": g.NFIXSUM, "NH4UMS": g.NH4UMS, "NH4Sum": g.NH4Sum}
		if !annualReset {
			cur["CUMDENIT"] = g.CUMDENIT
			cur["N2onitsum"] = g.N2onitsum
			cur["N2Odencum"] = g.N2Odencum
			if g.OUTN == g.N && !o.prevOverwrite {
				cur["OUTSUM"] = g.OUTSUM
			}
		} else {
			o.hit("reach.annual-reset")
		}
		for _, k := range []string{"AUFNASUM", "DRAINLOSS", "NFIXSUM", "NH4UMS", "NH4Sum", "CUMDENIT", "N2onitsum", "N2Odencum", "OUTSUM"} {
			v, ok1 := cur[k]
			old, ok2 := o.counters[k]
			if ok1 && ok2 && v < old-tol(v, old) {
				o.violate("monotone-counter", "counter-decreased:"+k, zeit, fmt.Sprintf("cumulative counter %s fell from %.12g to %.12g without a reset", k, old, v), nil)
			}
		}
		o.counters = map[string]float64{"AUFNASUM": g.AUFNASUM, "DRAINLOSS": g.DRAINLOSS, "NFIXSUM": g.NFIXSUM, "NH4UMS": g.NH4UMS, "NH4Sum": g.NH4Sum, "OUTSUM": g.OUTSUM, "CUMDENIT": g.CUMDENIT, "N2onitsum": g.N2onitsum, "N2Odencum": g.N2Odencum}
		o.prevOverwrite = o.overwrite
	case "evatra":
		o.aufna0, o.nfix0 = g.AUFNASUM, g.NFIXSUM
	case "water.pre":
		if subd == 1 {
			o.wurzMorning, o.akfMorning = g.WURZ, g.AKF.Index // rooting depth and rotation entry before today's crop step
		}
	case "nitro.pre":
		// what the N routine is about to book as crop uptake comes from the layers the crop can reach today: the rooted
		// layers above the groundwater table (the larger of the rooting depths before and after today's crop step)
		// (not in the later sub-steps of a harvest day: the harvest in the first sub-step clears the rooting depth while the
		// day's uptake, assigned before it, is still being booked)
		if reach := int(math.Min(float64(max(o.wurzMorning, g.WURZ)), g.GRW)); reach >= 0 && g.AKF.Index == o.akfMorning {
			for z := reach; z < g.N; z++ {
				if g.PE[z] != 0 {
					o.violate("crop-credit", "n-uptake-booked-from-a-layer-the-crop-does-not-reach", zeit,
						fmt.Sprintf("sub-step %d: %.9g kg N/ha is about to be booked as crop uptake from layer %d, rooting depth %d layers, groundwater table at %.4g dm", subd, g.PE[z], z+1, max(o.wurzMorning, g.WURZ), g.GRW), nil)
					break
				}
			}
		}
		o.pre = takeOrg(g)
		o.prePESUM, o.preAUFNA, o.preNFIX = g.PESUM, g.AUFNASUM, g.NFIXSUM
		if subd == 1 && zeit == g.ERNTE[g.AKF.Index] {
			o.harvestDay = true
		}
	case "nitro.post":
		o.steps++
		post := takeOrg(g)
		o.nonneg(zeit, fmt.Sprintf("after the N routine, sub-step %d", subd), g)
		fert, till, harvest := o.inputDay(zeit, g)
		harvest = harvest || o.harvestDay
		if subd > 1 {
			// mineralisation, fertilisation, tillage and residues all happen on the first sub-step
			if post.slow != o.pre.slow || post.fast != o.pre.fast {
				o.violate("organic-bookkeeping", "organic-pools-changed-on-later-substep", zeit, fmt.Sprintf("sub-step %d changed an organic pool or its mineralised counter", subd), nil)
			}
		} else {
			dS, dF := post.sumSlow-o.pre.sumSlow, post.sumFast-o.pre.sumFast
			tS, tF := tol(post.sumSlow, o.pre.sumSlow)*10, tol(post.sumFast, o.pre.sumFast)*10
			if !fert && !harvest {
				// no input today: what mineralisation removed from a pool is what its counter gained;
				// tillage may move both between layers but preserves the sums
				if math.Abs(dS) > tS || math.Abs(dF) > tF {
					o.violate("organic-bookkeeping", "pool-plus-counter-changed-without-input", zeit,
						fmt.Sprintf("no fertiliser/residue input today, yet slow pool+counter changed by %.6g and fast pool+counter by %.6g kg N/ha (tillage today: %v)", dS, dF, till),
						map[string]float64{"dSlow": dS, "dFast": dF})
				}
				if !till {
					for z := 0; z < 21; z++ {
						if math.Abs(post.slow[z]-o.pre.slow[z]) > tol(post.slow[z]) || math.Abs(post.fast[z]-o.pre.fast[z]) > tol(post.fast[z]) {
							o.violate("organic-bookkeeping", "layer-pool-plus-counter-changed-without-input", zeit,
								fmt.Sprintf("layer %d: pool+counter changed (slow %.12g -> %.12g, fast %.12g -> %.12g) on a day without input or tillage", z+1, o.pre.slow[z], post.slow[z], o.pre.fast[z], post.fast[z]), nil)
							break
						}
					}
				} else {
					o.hit("reach.tillage-day")
					// a tillage deeper than the mineralisation zone
					for z := 4; z < 21; z++ {
						if z < len(g.MINAOS) && (g.MINAOS[z] > 0 || g.MINFOS[z] > 0) {
							o.hit("reach.deep-tillage-mix")
							break
						}
					}
				}
			} else {
				if dS < -tS || dF < -tF {
					o.violate("organic-bookkeeping", "pool-plus-counter-shrank", zeit,
						fmt.Sprintf("slow pool+counter changed by %.6g, fast by %.6g kg N/ha on an input day (inputs can only add)", dS, dF), nil)
				}
				if fert {
					o.hit("reach.fertiliser-day")
				}
			}
		}
		// crop N crediting
		dP := g.PESUM - o.prePESUM
		if subd > 1 {
			if dP != 0 {
				o.violate("credit-once", "crop-N-credited-on-later-substep", zeit,
					fmt.Sprintf("sub-step %d of the day added %.12g kg N/ha to crop N (uptake and fixation are credited on the first sub-step only)", subd, dP),
					map[string]float64{"dPESUM": dP, "subd": float64(subd)})
			}
			if g.AUFNASUM != o.preAUFNA || g.NFIXSUM != o.preNFIX {
				o.violate("credit-once", "uptake-or-fixation-counter-changed-on-later-substep", zeit, fmt.Sprintf("sub-step %d changed the cumulative uptake or fixation counter", subd), nil)
			}
		}
		o.dayPESUM += dP
	case "dayend":
		if zeit != o.day {
			return
		}
		o.nonneg(zeit, "day end", g)
		if !o.harvestDay && o.steps > 0 {
			up := g.AUFNASUM - o.aufna0
			fx := g.NFIXSUM - o.nfix0
			if math.Abs(o.dayPESUM-(up+fx)) > tol(o.dayPESUM, up, fx, g.PESUM) {
				o.violate("credit-once", "crop-N-credit-differs-from-uptake-plus-fixation", zeit,
					fmt.Sprintf("crop N was credited %.12g kg/ha today over %d sub-steps; uptake booked %.12g + fixation booked %.12g = %.12g", o.dayPESUM, o.steps, up, fx, up+fx),
					map[string]float64{"credited": o.dayPESUM, "uptake": up, "fixation": fx, "steps": float64(o.steps)})
			}
			if fx > 0 {
				o.hit("reach.fixation-day")
				if o.steps >= 2 {
					o.hit("reach.fixation-multistep-day")
				}
			}
			if up > 0 && o.steps >= 2 {
				o.hit("reach.uptake-multistep-day")
			}
		}
		if g.TD[1] <= 0 {
			o.hit("reach.frozen-topsoil")
		}
	}
}

func (o *c07Oracle) Finish(out *RunOutcome, res *Result) { o.flush(res) }

func init() {
	register(&CheckDef{
		Prop:  "C07",
		Level: "exploration",
		Gen: func(r *RNG, idx int, tier string) *Scenario {
			p := c02Profile()
			p.MaxYears = 4
			p.Legume = 0.5
			p.BareProb = 0.1
			w := GenWorld(r.Sub("world", 0), p, paramTables)
			// tillage of any depth (deeper than the 30-40 cm mineralisation zone, deeper than a shallow profile)
			for i := range w.Till {
				w.Till[i].Depth = r.PickI([]int{5, 10, 15, 20, 25, 28, 30, 40, 45, 50, 60, 80, 100, 150, 200})
			}
			if idx%3 == 0 {
				// legume days with many sub-steps: storms inside the growing season
				for _, e := range w.Rot[1:] {
					for k := 0; k < 3; k++ {
						d := e.Sow + Day(r.Range(20, max(21, int(e.Harvest-e.Sow)-5)))
						w.Weather.Events = append(w.Weather.Events, WeatherEvent{Day: d, Kind: "rain", Val: float64(r.PickI([]int{40, 80, 150, 250}))})
					}
				}
			}
			if idx%8 == 5 {
				// perennial stand (lucerne, grassland) cut several times, the first cut soon after an autumn sowing
				// (little mass on the field), cuts left on the field or removed
				perennialStand(r, w)
			}
			return &Scenario{Prop: "C07", Kind: "single", World: w, Bug: genBug(r.Sub("bug", 0), true)}
		},
		Exec: func(sc *Scenario, env *Env) *Result {
			o := &c07Oracle{w: sc.World}
			o.init("C07")
			res, _ := runTrajectory(sc, env, nil, []Oracle{o}, nil)
			return res
		},
		Quick:    2000,
		Thorough: 60000,
		NonTrivial: func(res *Result) bool {
			return res.Status != "invalid" && res.Status != "crash" && (res.Stats["reach.uptake-multistep-day"] > 0 || res.Stats["reach.tillage-day"] > 0 || res.Stats["reach.fertiliser-day"] > 0)
		},
		Rule:      "one generated world per evaluation (legume-biased rotations, tillage depths 5..200 cm, all fertiliser types, heavy sub-step buggify, storms inside the season), run by the real session.Run; pools, counters and crop-N crediting are checked around every call of the N routine and at day end; non-trivial = the run had a multi-sub-step day with crop uptake, or a tillage or fertiliser day",
		ReachKeys: []string{"reach.fixation-multistep-day", "reach.uptake-multistep-day", "reach.tillage-day", "reach.deep-tillage-mix", "reach.fertiliser-day", "reach.frozen-topsoil", "bug.days"},
		Assumptions: []string{
			"probes read the model state through the verif hooks (guarded, add-only)",
			"input days (fertiliser, residues) are taken from the generated schedule with a 3-day window; on those days pool+counter may only grow, on all others it must be unchanged",
			"automatic management and fertiliser prediction off",
		},
	})
}
