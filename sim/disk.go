package main

// Simulated disk behind the HermesSession.HermesOutWriter seam: every result
// stream is recorded in memory; writes are potential scheduling and fault
// points.

import (
	"crypto/sha256"
	"encoding/hex"
	"errors"
	"fmt"
	"sort"
	"sync"

	"github.com/zalf-rpm/Hermes2Go/hermes"
)

type SimFile struct {
	Path            string
	Data            []byte
	Opens           int
	Closes          int
	Open            bool
	WritesAfterEnd  int    // writes on a closed handle
	Owner           string // task that opened it last
	Truncations     int
	StaleBytes      int // bytes planted before the run (crash survivors)
	FailedWrites    int // writes that returned an injected error
	OpenedBy        []string
}

type SimDisk struct {
	mu    sync.Mutex
	Files map[string]*SimFile
	Ops   int
	// hooks (may be nil)
	OnOp      func(path, kind string, rec bool) // scheduling point: open, close, record end
	// FailWrite decides the fate of one write: keep < 0 = the write succeeds; otherwise only the first keep bytes
	// reach the file (0 = none, a torn write otherwise) and err is returned to the caller.
	FailWrite func(path string, opIndex int, p []byte, sizeNow int) (keep int, err error)
	FailOpen  func(path string) error
	CurTask   func() string
}

func NewSimDisk() *SimDisk { return &SimDisk{Files: map[string]*SimFile{}} }

// Plant puts pre-existing content on the disk (stale files of an earlier run).
func (d *SimDisk) Plant(path string, data []byte) {
	d.mu.Lock()
	defer d.mu.Unlock()
	d.Files[path] = &SimFile{Path: path, Data: append([]byte{}, data...), StaleBytes: len(data)}
}

func (d *SimDisk) Generator() hermes.OutWriterGenerator {
	return func(path string, appendMode bool) (hermes.OutWriter, error) {
		if d.OnOp != nil {
			d.OnOp(path, "open", false)
		}
		if d.FailOpen != nil {
			if err := d.FailOpen(path); err != nil {
				return nil, err
			}
		}
		d.mu.Lock()
		defer d.mu.Unlock()
		f := d.Files[path]
		if f == nil {
			f = &SimFile{Path: path}
			d.Files[path] = f
		}
		if !appendMode {
			f.Data = f.Data[:0]
			f.Truncations++
		}
		f.Opens++
		f.Open = true
		if d.CurTask != nil {
			f.Owner = d.CurTask()
			f.OpenedBy = append(f.OpenedBy, f.Owner)
		}
		return &simWriter{d: d, f: f}, nil
	}
}

type simWriter struct {
	d      *SimDisk
	f      *SimFile
	closed bool
	nops   int
}

var errDiskFull = errors.New("simulated disk: no space left on device")

func (w *simWriter) put(p []byte) (int, error) {
	w.d.mu.Lock()
	w.d.Ops++
	w.nops++
	n := w.nops
	if w.closed {
		w.f.WritesAfterEnd++
	}
	fail := w.d.FailWrite
	size := len(w.f.Data)
	w.d.mu.Unlock()
	if fail != nil {
		if keep, err := fail(w.f.Path, n, p, size); err != nil && keep >= 0 {
			if keep > len(p) {
				keep = len(p)
			}
			w.d.mu.Lock()
			w.f.Data = append(w.f.Data, p[:keep]...)
			w.f.FailedWrites++
			w.d.mu.Unlock()
			return keep, err
		}
	}
	w.d.mu.Lock()
	w.f.Data = append(w.f.Data, p...)
	w.d.mu.Unlock()
	if w.d.OnOp != nil && len(p) > 0 {
		if p[len(p)-1] == '\n' {
			w.d.OnOp(w.f.Path, "record", true)
		} else {
			w.d.OnOp(w.f.Path, "write", true) // inside a record (between two fields or fill characters)
		}
	}
	return len(p), nil
}

func (w *simWriter) Write(s string) (int, error)        { return w.put([]byte(s)) }
func (w *simWriter) WriteBytes(b []byte) (int, error)   { return w.put(b) }
func (w *simWriter) WriteRune(r rune) (int, error)      { return w.put([]byte(string(r))) }
func (w *simWriter) WriteError(err error) (int, error)  { return w.put([]byte(err.Error())) }
func (w *simWriter) Close() {
	if w.d.OnOp != nil {
		w.d.OnOp(w.f.Path, "close", false)
	}
	w.d.mu.Lock()
	w.closed = true
	w.f.Closes++
	w.f.Open = false
	w.d.mu.Unlock()
}

func (d *SimDisk) Paths() []string {
	d.mu.Lock()
	defer d.mu.Unlock()
	ps := make([]string, 0, len(d.Files))
	for p := range d.Files {
		ps = append(ps, p)
	}
	sort.Strings(ps)
	return ps
}

func (d *SimDisk) Get(path string) *SimFile {
	d.mu.Lock()
	defer d.mu.Unlock()
	return d.Files[path]
}

func (d *SimDisk) String() string {
	s := ""
	for _, p := range d.Paths() {
		s += fmt.Sprintf("%s (%d bytes)\n", p, len(d.Files[p].Data))
	}
	return s
}

// Digest hashes every file (base name and content) on the disk, in path order.
func (d *SimDisk) Digest() string {
	h := sha256.New()
	for _, p := range d.Paths() {
		base := p
		for i := len(p) - 1; i >= 0; i-- {
			if p[i] == '/' {
				base = p[i+1:]
				break
			}
		}
		f := d.Get(p)
		fmt.Fprintf(h, "%s %d %d %d\n", base, len(f.Data), f.Opens, f.Closes)
		h.Write(f.Data)
	}
	return hex.EncodeToString(h.Sum(nil)[:12])
}
