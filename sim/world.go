package main

// World model: a generated Hermes2Go project (soil, weather, management,
// configuration). A World is plain data (JSON) — it is part of the replay file —
// and is turned into input files by materialize.go.

import (
	"fmt"
	"math"
	"os"
	"path/filepath"
	"sort"
	"strings"
)

// ---------------------------------------------------------------- soil

type Horizon struct {
	Corg    float64 `json:"corg"`              // % (two decimals)
	Tex     string  `json:"tex"`               // KA5 texture, as in the tables
	Depth   int     `json:"depth"`             // lower boundary, dm (cumulative)
	LD      int     `json:"ld"`                // bulk density class 1..5
	BD      float64 `json:"bd,omitempty"`      // measured bulk density (csv only; 0 = absent)
	Stone   int     `json:"stone"`             // %
	CN      int     `json:"cn"`                // C/N
	FC      int     `json:"fc,omitempty"`      // vol% (0 = absent)
	WP      int     `json:"wp,omitempty"`      // vol%
	PS      int     `json:"ps,omitempty"`      // vol%
	Sand    int     `json:"sand,omitempty"`    // %
	Silt    int     `json:"silt,omitempty"`    // %
	Clay    int     `json:"clay,omitempty"`    // %
}

type Soil struct {
	ID        string    `json:"id"`
	Horizons  []Horizon `json:"horizons"`
	RootDepth int       `json:"rootdepth"` // dm
	DrainDep  int       `json:"draindep"`  // dm (0 or > N = no drain)
	DrainFrac float64   `json:"drainfrac"` // 0..1, one decimal
	GW        int       `json:"gw"`        // groundwater level dm (soil file)
}

func (s *Soil) N() int { return s.Horizons[len(s.Horizons)-1].Depth }

// ---------------------------------------------------------------- weather

type WeatherEvent struct {
	Day  Day     `json:"day"`
	Kind string  `json:"kind"` // rain | frost | heat | calm | drought | nosun | norad | sentinel_sun | sentinel_verd | tflip
	Val  float64 `json:"val,omitempty"`
	Len  int     `json:"len,omitempty"`
}

type WeatherSpec struct {
	Sub        uint64         `json:"sub"`      // sub-seed of the base series
	FirstDay   Day            `json:"first"`    // first day contained in the series
	LastDay    Day            `json:"last"`     // last day contained
	Lat        float64        `json:"lat"`      // drives seasonality
	TMean      float64        `json:"tmean"`    // annual mean °C
	TAmp       float64        `json:"tamp"`     // seasonal amplitude
	RainP      float64        `json:"rainp"`    // probability wet after dry
	RainMean   float64        `json:"rainmean"` // mean wet-day rain mm
	Flat       bool           `json:"flat,omitempty"` // constant climatology (minimisation)
	HasRad     bool           `json:"hasrad"`   // radiation column carries data
	HasSun     bool           `json:"hassun"`   // sunshine hours carried
	HasVerd    bool           `json:"hasverd"`  // saturation deficit carried
	WindHeight float64        `json:"windh"`    // header line (NumHeader 3)
	StationAlt float64        `json:"stalt"`
	Events     []WeatherEvent `json:"events,omitempty"`
}

// WRec is one day of weather as written to the files (file units).
type WRec struct {
	Tavg, Tmin, Tmax float64
	Rad              float64 // global radiation MJ m-2 (none value if missing)
	Sun              float64 // h
	Verd             float64 // mmHg
	ET0              float64 // mm
	RH               float64 // %
	Wind             float64 // m/s
	Rain             float64 // mm
}

// ---------------------------------------------------------------- management

type RotEntry struct {
	Crop    string `json:"crop"`
	Variety string `json:"variety,omitempty"`
	Sow     Day    `json:"sow"`
	Harvest Day    `json:"harvest"`
	Rex     int    `json:"rex"`    // % residues exported (JN)
	Yld     int    `json:"yld"`    // first entry: previous yield dt/ha
	AutOrg  int    `json:"autorg"` // organic fertiliser flag (auto fertilisation)
}

type FertEvent struct {
	Day  Day     `json:"day"`
	Amt  int     `json:"amt"`
	Type string  `json:"type"`
}
type IrrEvent struct {
	Day  Day `json:"day"`
	MM   int `json:"mm"`
	NO3  int `json:"no3"` // mg/l
}
type TillEvent struct {
	Day   Day `json:"day"`
	Depth int `json:"depth"` // cm
	Type  int `json:"type"`
}

type Measurement struct {
	Day   Day        `json:"day"`
	Nmin  [6]int     `json:"nmin"`
	Mode  int        `json:"mode"` // 1 fraction of available water, 2, 3 absolute
	Water [6]float64 `json:"water"`
	Short bool       `json:"short,omitempty"` // only the classes down to 9 dm are given (short text line / empty csv cells)
	Again int        `json:"again,omitempty"` // > 0: the file holds a second sampling of the plot, this many days later, with other values (the model uses the first)
}

type AutoLine struct {
	Crop                   string
	Sow1M, Sow1D           int
	Sow2M, Sow2D           int
	Har2M, Har2D           int
	TS                     float64
	TSIsMax                bool
	SMoMin, SMoMax         float64
	HMoMin, HMoMax         float64
	RainLim, RainAct       float64
	TAccu                  int
	TBase                  int
	IrrSt1, IrrSt2         int
	NDem1, NDem2, NDem3    int
	St1, St2, St3          string // "S0","S3","59","0"
	TWindow                int
	OrgF                   string
	OrgAmt                 int
	App                    string // "H1" etc
	IrrLow, IrrDep, IrrMax int
}

type GWPoint struct {
	Day   Day     `json:"day"`
	Level float64 `json:"level"`
}

// ---------------------------------------------------------------- config

type Cfg struct {
	DateFormat     string  `json:"datefmt"`
	DivideCentury  int     `json:"cent"`
	GroundWater    string  `json:"gwfrom"` // soilfile | polygonfile | gwTimeSeries
	ResultFormat   int     `json:"resfmt"` // 0 fixed width, 1 csv
	ResultExt      string  `json:"resext,omitempty"`
	OutInterval    int     `json:"outint"`
	MgmtEvents     int     `json:"mgmt"`
	InitSelection  int     `json:"initsel"`
	SoilExt        string  `json:"soilext"` // txt | csv
	CropFileFormat string  `json:"cropfmt"` // txt | csv
	CropParamFmt   string  `json:"cropparfmt"`
	MeasFmt        string  `json:"measfmt"`
	WeatherLayout  int     `json:"wlayout"` // 0,1,2
	NoneValue      float64 `json:"none"`
	NumHeader      int     `json:"numheader"`
	Preco          bool    `json:"preco"`
	TBase          float64 `json:"tbase"` // annual average temperature
	ETpot          int     `json:"etpot"`
	CO2method      int     `json:"co2meth"`
	CO2conc        float64 `json:"co2"`
	CO2Stomata     bool    `json:"co2stom"`
	NDeposition    float64 `json:"ndep"`
	StartYear      int     `json:"startyear"`
	End            Day     `json:"end"`
	AnnualM        int     `json:"annualm"`
	AnnualD        int     `json:"annuald"`
	Prognose       Day     `json:"prognose,omitempty"` // 0 = none
	Latitude       float64 `json:"lat"`
	Altitude       float64 `json:"alt"`
	CoastDist      float64 `json:"coast"`
	PTF            int     `json:"ptf"`
	LeachDepth     int     `json:"leach"`
	OrgMinProp     float64 `json:"nakt"`
	KcBare         float64 `json:"kcbare"`
	PotMin         int     `json:"potmin"`
	GWPhase        int     `json:"gwphase"`
	Fertilization  float64 `json:"fertpct"`
	AutoSow        bool    `json:"autosow"`
	AutoFert       bool    `json:"autofert"`
	AutoIrr        bool    `json:"autoirr"`
	AutoHarvest    bool    `json:"autoharv"`
}

// ---------------------------------------------------------------- world

type World struct {
	Loc      string       `json:"loc"`   // project folder name
	Plot     string       `json:"plot"`  // plotNr
	Poly     string       `json:"poly"`  // poligonID (output id prefix)
	Field    string       `json:"field"` // Field_ID
	FCode    string       `json:"fcode"` // weather file code
	Cfg      Cfg          `json:"cfg"`
	Soil     Soil         `json:"soil"`
	GWHi     int          `json:"gwhi"` // polygon file GH
	GWLo     int          `json:"gwlo"` // polygon file GL
	GWSeries []GWPoint    `json:"gwseries,omitempty"`
	Weather  WeatherSpec  `json:"weather"`
	Rot      []RotEntry   `json:"rot"`
	Fert     []FertEvent  `json:"fert,omitempty"`
	Irr      []IrrEvent   `json:"irr,omitempty"`
	IrrOn    bool         `json:"irron"`
	Till     []TillEvent  `json:"till,omitempty"`
	Meas     Measurement  `json:"meas"`
	Auto     []AutoLine   `json:"auto,omitempty"`
	// Decoy entities in shared files (other fields / soils) to exercise file scanning.
	Decoys   int          `json:"decoys,omitempty"`
	NoTilFile bool        `json:"notilfile,omitempty"` // no tillage events and no tillage file in the project
	TightGap bool         `json:"tightgap,omitempty"` // a sowing date / window 1-4 days behind the preceding (latest) harvest
	// BadEnt adds entities that make a batch line fail with a reported run error
	// when selected by plotNr / soilId / fcode (C11).
	BadEnt   bool         `json:"badent,omitempty"`
	CRLF     bool         `json:"crlf,omitempty"`
	WxFault  *WxFault     `json:"wxfault,omitempty"`
	// CropAlias renames crops of the rotation to user-defined crop codes (base code -> custom code); the parameter
	// folder of the scenario gets copies of the base crop's files and table lines under the custom code.
	CropAlias map[string]string `json:"cropalias,omitempty"`
	// Alt adds a second input set to the project, selected on the batch line: weather folder wx2 (another series for
	// the same station code and period, with its own monthly correction file) through WeatherFolder=wx2, and project
	// files with the extension "alt" (rotation, automatic-management table with other windows, polygon file with other
	// groundwater levels and irrigation switch) through fileExtension=alt.
	Alt uint64 `json:"alt,omitempty"`
}

func (w *World) cropCode(c string) string {
	if a, ok := w.CropAlias[c]; ok {
		return a
	}
	return c
}

// WxFault is an input fault on the weather series (C04, C11).
//   end-early   the series ends on Day (later records absent)
//   start-late  the series starts on Day
//   gap         the record of Day is missing
//   year-missing (layout 0) the file of Day's year is absent from the start
//   delete-at   (layout 0) the file of year Year disappears when the simulation reaches Day
type WxFault struct {
	Kind string `json:"kind"`
	Day  Day    `json:"day"`
	Year int    `json:"year,omitempty"`
}

func (w *World) Start() Day { return w.Rot[0].Harvest }

// DateWindow is the span of dates the configured date format can express unambiguously.
func (w *World) DateWindow() (lo, hi Day) {
	if w.Cfg.DateFormat == DEshort || w.Cfg.DateFormat == ENshort {
		return DayOf(1900+w.Cfg.DivideCentury, 1, 1), DayOf(1999+w.Cfg.DivideCentury, 12, 31)
	}
	return DayOf(1901, 1, 1), DayOf(2099, 12, 31)
}

// ---------------------------------------------------------------- parameter tables (read from the repository, not mirrored)

type ParamTables struct {
	Dir        string
	Textures   []string            // textures present in both HYPAR and PARCAP
	Peat       []string            // subset starting with H
	Mineral    []string
	Fertilizer []FertType
	Crops      map[string]bool // PARAM.<crop> present
	Varieties  map[string][]string
}

type FertType struct {
	Name                           string
	Ntot, Ndir, Nfst, Nslo, NH4, Loss float64
}

var paramTables *ParamTables

func LoadParamTables(dir string) (*ParamTables, error) {
	pt := &ParamTables{Dir: dir, Crops: map[string]bool{}, Varieties: map[string][]string{}}
	hy, err := os.ReadFile(filepath.Join(dir, "HYPAR.TRU"))
	if err != nil {
		return nil, err
	}
	pc, err := os.ReadFile(filepath.Join(dir, "PARCAP.TRU"))
	if err != nil {
		return nil, err
	}
	inHy := map[string]bool{}
	for i, l := range strings.Split(string(hy), "\n") {
		l = strings.TrimRight(l, "\r")
		if i == 0 || len(l) < 33 {
			continue
		}
		inHy[strings.ToUpper(l[0:3])] = true
	}
	pcl := strings.Split(string(pc), "\n")
	seen := map[string]bool{}
	for i := 0; i+1 < len(pcl); i += 2 {
		l := strings.TrimRight(pcl[i], "\r")
		if len(l) < 3 {
			continue
		}
		t := strings.ToUpper(l[0:3])
		if strings.TrimSpace(t) == "" || seen[t] {
			continue
		}
		seen[t] = true
		if inHy[t] {
			pt.Textures = append(pt.Textures, t)
		}
	}
	sort.Strings(pt.Textures)
	for _, t := range pt.Textures {
		if t[0] == 'H' {
			pt.Peat = append(pt.Peat, t)
		} else {
			pt.Mineral = append(pt.Mineral, t)
		}
	}
	fz, err := os.ReadFile(filepath.Join(dir, "FERTILIZ.TXT"))
	if err != nil {
		return nil, err
	}
	for i, l := range strings.Split(string(fz), "\n") {
		f := strings.Fields(l)
		if i == 0 || len(f) < 7 {
			continue
		}
		var ft FertType
		ft.Name = f[0]
		if _, err := fmt.Sscanf(strings.Join(f[1:7], " "), "%g %g %g %g %g %g", &ft.Ntot, &ft.Ndir, &ft.Nfst, &ft.Nslo, &ft.NH4, &ft.Loss); err != nil {
			continue
		}
		pt.Fertilizer = append(pt.Fertilizer, ft)
	}
	ents, err := os.ReadDir(dir)
	if err != nil {
		return nil, err
	}
	for _, e := range ents {
		n := e.Name()
		if strings.HasSuffix(n, ".yml") {
			continue
		}
		if strings.HasPrefix(n, "PARAM.") {
			pt.Crops[strings.TrimPrefix(n, "PARAM.")] = true
		} else if strings.HasPrefix(n, "PARAM_") {
			rest := strings.TrimPrefix(n, "PARAM_")
			if i := strings.LastIndex(rest, "."); i > 0 {
				v, c := rest[:i], rest[i+1:]
				pt.Varieties[c] = append(pt.Varieties[c], v)
			}
		}
	}
	for c := range pt.Varieties {
		sort.Strings(pt.Varieties[c])
	}
	if len(pt.Textures) == 0 || len(pt.Fertilizer) == 0 {
		return nil, fmt.Errorf("parameter tables in %s unreadable", dir)
	}
	return pt, nil
}

// ---------------------------------------------------------------- generation profile

// Profile selects which features a generated world may use. Each check builds
// its own profile; swarm-style toggles are drawn inside GenWorld.
type Profile struct {
	MinYears, MaxYears int
	GWModes            []string // allowed groundwater sources
	AllowMeasMid       bool     // measurement overwrite inside the run
	AllowAuto          bool     // automatic management switches
	AutoNoDates        bool     // with AllowAuto: only automatic irrigation and fertilisation (sowing and harvest keep the rotation's dates)
	AllowPTF           bool
	AllowPeat          bool
	AllowCSV           bool // csv encodings of soil/rotation/measurement
	Layouts            []int
	DateFormats        []string
	MinLayers          int
	LeachAtBottom      bool
	Storms             float64 // probability that a scenario injects storms
	Crops              []string // allowed crops ("" = bare)
	BareProb           float64
	ForceDaily         bool // daily output on
	MaxStone           int
	LatRange           [2]float64
	ETMethods          []int
	AllowPrognose      bool
	NoMgmt             bool
	AllowDrain         bool
	ShallowGW          float64 // probability of groundwater inside the profile
	Legume             float64 // probability that rotation prefers legumes
	AnnualBeforeEnd    bool    // annual date strictly earlier in the year than the end date
}

func DefaultProfile() Profile {
	return Profile{
		MinYears: 1, MaxYears: 4,
		GWModes:       []string{"soilfile"},
		AllowCSV:      true,
		Layouts:       []int{0, 1, 2},
		DateFormats:   allDateFormats,
		MinLayers:     1,
		LeachAtBottom: true,
		Storms:        0.5,
		Crops:         annualCrops,
		BareProb:      0.2,
		ForceDaily:    true,
		MaxStone:      60,
		LatRange:      [2]float64{-70, 70},
		ETMethods:     []int{1, 2, 3, 4, 5},
		AllowDrain:    true,
		ShallowGW:     0.3,
		AnnualBeforeEnd: true,
	}
}

var annualCrops = []string{"SM", "CCM", "SOY", "SW", "WW", "WG", "WR", "TR", "OA", "WRA", "K", "ZR", "LUP"}
var winterCrops = map[string]bool{"WW": true, "WG": true, "WR": true, "TR": true, "WRA": true}
var legumeCrops = []string{"SOY", "LUP"}

// ---------------------------------------------------------------- generators

func genSoil(r *RNG, p *Profile, pt *ParamTables, ptf int, id string, gwShallow bool) Soil {
	var s Soil
	s.ID = id
	n := r.Range(max(p.MinLayers, 1), 20)
	if r.Bool(0.35) {
		n = r.Range(max(p.MinLayers, 8), 20)
	}
	nh := r.Range(1, min(10, n))
	if r.Bool(0.5) {
		nh = min(nh, 3)
	}
	// horizon boundaries: nh distinct increasing depths ending at n
	cuts := map[int]bool{n: true}
	for len(cuts) < nh {
		cuts[r.Range(1, n)] = true
	}
	depths := make([]int, 0, nh)
	for d := range cuts {
		depths = append(depths, d)
	}
	sort.Ints(depths)
	route := "table"
	if ptf > 0 {
		route = "ptf"
	} else if r.Bool(0.45) {
		route = "explicit"
	}
	peat := p.AllowPeat && route == "table" && r.Bool(0.12)
	for i, d := range depths {
		var h Horizon
		h.Depth = d
		if peat && i == 0 && len(pt.Peat) > 0 {
			h.Tex = r.PickS(pt.Peat)
			h.Corg = round(r.FRange(15, 40), 2)
		} else {
			h.Tex = r.PickS(pt.Mineral)
			c := r.FRange(0, 3) * math.Pow(0.6, float64(i))
			if r.Bool(0.1) {
				c = r.FRange(3, 6)
			}
			h.Corg = round(c, 2)
		}
		h.LD = r.Range(1, 5)
		if r.Bool(0.7) {
			h.Stone = 0
		} else {
			h.Stone = r.Range(0, p.MaxStone)
		}
		h.CN = r.Range(8, 20)
		if r.Bool(0.2) {
			h.CN = 0 // file may leave it to the default
		}
		switch route {
		case "explicit":
			h.WP = r.Range(3, 30)
			h.FC = r.Range(h.WP+4, min(h.WP+30, 55))
			h.PS = r.Range(h.FC, min(h.FC+20, 70))
			h.Sand, h.Silt, h.Clay = genTexFractions(r)
		case "ptf":
			h.Sand, h.Silt, h.Clay = genTexFractions(r)
			h.PS = r.Range(45, 65)
			if h.Corg > 6 {
				h.Corg = round(r.FRange(0, 6), 2)
			}
			if r.Bool(0.3) {
				// the soil file also carries explicit field capacity / wilting point columns (left from a table export);
				// with a transfer function selected they are not the source of the parameters
				h.WP = r.Range(3, 30)
				h.FC = r.Range(h.WP+4, min(h.WP+30, h.PS))
			}
		default:
			h.Sand, h.Silt, h.Clay = 0, 0, 0
		}
		s.Horizons = append(s.Horizons, h)
	}
	s.RootDepth = r.Range(1, 20)
	if r.Bool(0.5) {
		s.RootDepth = r.Range(min(5, n), max(min(5, n), n))
	}
	if p.AllowDrain && r.Bool(0.3) {
		s.DrainDep = r.Range(1, n)
		s.DrainFrac = float64(r.Range(0, 10)) / 10
	} else {
		// "no drain": 0 or a depth below the profile (the concentration array has 22 slots)
		s.DrainDep = r.PickI([]int{0, 20, 21})
		s.DrainFrac = float64(r.Range(0, 10)) / 10
		if s.DrainDep <= n {
			s.DrainDep = 21
		}
	}
	if gwShallow {
		s.GW = r.Range(1, n+2)
	} else {
		s.GW = r.Range(n+3, 99)
		if r.Bool(0.5) {
			s.GW = 99
		}
	}
	return s
}

func genTexFractions(r *RNG) (sand, silt, clay int) {
	// at least 5 % of each fraction and at most 85 % sand (C15 quantifier)
	for {
		clay = r.Range(5, 60)
		silt = r.Range(5, 90)
		if r.Bool(0.15) {
			// corners of the admissible triangle
			switch r.Intn(3) {
			case 0:
				clay, silt = r.Range(5, 8), r.Range(85, 90)
			case 1:
				clay, silt = r.Range(5, 10), r.Range(5, 10)
			default:
				clay, silt = r.Range(80, 90), r.Range(5, 8)
			}
		}
		sand = 100 - clay - silt
		if sand >= 5 && sand <= 85 {
			return
		}
	}
}

func genRotation(r *RNG, p *Profile, pt *ParamTables, start Day, end Day) []RotEntry {
	var rot []RotEntry
	prevCrops := []string{"WW", "SM", "ZR", "WRA", "K", "SOY", "CCM", "WG"}
	first := RotEntry{Crop: r.PickS(prevCrops), Sow: start - Day(r.Range(100, 300)), Harvest: start, Rex: r.PickI([]int{0, 100, 80, 50}), Yld: r.Range(0, 90)}
	rot = append(rot, first)
	if r.Bool(p.BareProb) || len(p.Crops) == 0 {
		return rot
	}
	cur := start + Day(r.Range(5, 60))
	crops := p.Crops
	if r.Bool(p.Legume) {
		crops = legumeCrops
	}
	for len(rot) < 8 {
		c := r.PickS(crops)
		if !pt.Crops[c] {
			continue
		}
		y := cur.Year()
		var sow, har Day
		if winterCrops[c] {
			sow = DayOf(y, 8, 20) + Day(r.Range(0, 60))
			if sow < cur {
				sow = DayOf(y+1, 8, 20) + Day(r.Range(0, 60))
			}
			har = DayOf(sow.Year()+1, 7, 10) + Day(r.Range(0, 45))
		} else {
			sow = DayOf(y, 3, 15) + Day(r.Range(0, 65))
			if sow < cur {
				sow = DayOf(y+1, 3, 15) + Day(r.Range(0, 65))
			}
			har = DayOf(sow.Year(), 8, 1) + Day(r.Range(0, 90))
		}
		if sow > end {
			break
		}
		e := RotEntry{Crop: c, Sow: sow, Harvest: har, Rex: r.PickI([]int{0, 100, 100, 80, 30, 200})}
		if vs := pt.Varieties[c]; len(vs) > 0 && r.Bool(0.4) {
			e.Variety = r.PickS(vs)
		}
		rot = append(rot, e)
		cur = har + Day(r.Range(5, 40))
		if har > end {
			break
		}
	}
	return rot
}

// inGrowingAuto is inGrowing widened by the automatic sowing window and latest harvest date.
func (w *World) inGrowingAuto(d Day) bool {
	for i := 1; i < len(w.Rot); i++ {
		lo, hi := w.Rot[i].Sow, w.Rot[i].Harvest
		s1, _, h2 := w.AutoWindows(i)
		if w.Cfg.AutoSow && s1 < lo {
			lo = s1
		}
		if w.Cfg.AutoHarvest && h2 > hi {
			hi = h2
		}
		if d > lo-3 && d <= hi+3 {
			return true
		}
	}
	return false
}

func inGrowing(rot []RotEntry, d Day) bool {
	for i := 1; i < len(rot); i++ {
		if d > rot[i].Sow-2 && d <= rot[i].Harvest+2 {
			return true
		}
	}
	return false
}

// GenWorld draws one world.
func GenWorld(r *RNG, p Profile, pt *ParamTables) *World {
	w := &World{}
	w.Loc = "vp" + fmt.Sprint(r.Intn(90)+10)
	w.Plot = fmt.Sprint(10001 + r.Intn(9))
	w.Poly = fmt.Sprint(20000 + r.Intn(999))
	w.Field = "F" + fmt.Sprint(100+r.Intn(800))
	w.FCode = "st" + fmt.Sprint(r.Intn(90)+10)
	w.Decoys = r.Intn(3)
	w.CRLF = r.Bool(0.3)

	c := &w.Cfg
	c.DateFormat = r.PickS(p.DateFormats)
	years := r.Range(p.MinYears, p.MaxYears)
	var y0 int
	if c.DateFormat == DEshort || c.DateFormat == ENshort {
		c.DivideCentury = r.Range(20, 80)
		lo, hi := 1900+c.DivideCentury, 1999+c.DivideCentury
		if lo < 1902 {
			lo = 1902
		}
		if hi > 2098 {
			hi = 2098
		}
		y0 = r.Range(lo+2, hi-years-2)
		if r.Bool(0.12) {
			y0 = lo + 1 // edge of the window: the dates of the year before the start carry the two-digit year that equals DivideCentury
		}
		// otherwise two spare years on each side: pre-start events, the initial crop's sowing date and the spare weather year stay inside the unambiguous century window
	} else {
		c.DivideCentury = r.PickI([]int{0, 50, 60})
		y0 = r.Range(1902, 2098-years-1)
		if r.Bool(0.6) {
			y0 = r.Range(1960, 2040)
		}
	}
	// start day: harvest of the initial crop
	start := DayOf(y0, 1, 1) + Day(r.Range(0, daysIn(y0)-1))
	if r.Bool(0.6) {
		start = DayOf(y0, 7, 15) + Day(r.Range(0, 100))
	}
	if r.Bool(0.05) {
		start = DayOf(y0, 1, 1)
	}
	c.StartYear = y0
	endY := y0 + years - 1
	if start.YearDay() > 200 || years == 1 {
		endY = y0 + years
	}
	end := DayOf(endY, 12, 31)
	if r.Bool(0.4) {
		end = DayOf(endY, 1, 1) + Day(r.Range(20, daysIn(endY)-1))
	}
	if end <= start+30 {
		end = start + 200
	}
	c.End = end
	// annual output date: strictly earlier in the year than the end date's day-of-year (see DESIGN S9)
	ey, _, _ := end.YMD()
	for {
		c.AnnualM = r.Range(1, 12)
		c.AnnualD = r.Range(1, 28)
		if r.Bool(0.2) {
			c.AnnualM, c.AnnualD = 12, 31
		}
		if !p.AnnualBeforeEnd || DayOf(ey, c.AnnualM, c.AnnualD) < end {
			break
		}
	}
	c.GroundWater = r.PickS(p.GWModes)
	c.ResultFormat = r.Intn(2)
	if r.Bool(0.3) {
		c.ResultExt = r.PickS([]string{"RES", "csv", "out"})
	}
	c.OutInterval = 1
	if !p.ForceDaily {
		c.OutInterval = r.PickI([]int{0, 1, 1, 2, 3, 7, 10})
	}
	c.MgmtEvents = r.Intn(2)
	c.InitSelection = r.Range(1, 4)
	c.SoilExt, c.CropFileFormat, c.MeasFmt = "txt", "txt", "txt"
	if p.AllowCSV {
		if r.Bool(0.4) {
			c.SoilExt = "csv"
		}
		if r.Bool(0.4) {
			c.CropFileFormat = "csv"
		}
		if r.Bool(0.4) {
			c.MeasFmt = "csv"
		}
	}
	c.CropParamFmt = r.PickS([]string{"txt", "yml"})
	c.WeatherLayout = r.PickI(p.Layouts)
	c.NoneValue = r.PickF([]float64{-99.9, -99, 999.9})
	c.NumHeader = r.PickI([]int{1, 2, 3})
	if c.WeatherLayout == 2 {
		c.NumHeader = r.PickI([]int{1, 2})
	}
	c.Preco = r.Bool(0.2)
	c.ETpot = r.PickI(p.ETMethods)
	c.CO2method = r.Range(1, 3)
	c.CO2conc = float64(r.Range(300, 800))
	c.CO2Stomata = r.Bool(0.5)
	c.NDeposition = float64(r.PickI([]int{0, 5, 20, 40, 60}))
	c.Latitude = round(r.FRange(p.LatRange[0], p.LatRange[1]), 2)
	if r.Bool(0.5) {
		c.Latitude = round(r.FRange(35, 60), 2)
	}
	c.Altitude = float64(r.Range(0, 1500))
	c.CoastDist = float64(r.PickI([]int{5, 30, 90, 300}))
	if p.AllowPTF && r.Bool(0.4) {
		c.PTF = r.Range(1, 4)
	}
	c.OrgMinProp = r.PickF([]float64{0.05, 0.13, 0.2})
	c.KcBare = r.PickF([]float64{0.4, 0.6, 0.65, 1.0})
	c.PotMin = r.Intn(2)
	c.GWPhase = r.PickI([]int{0, 80, 80, 170, 260, 359})
	c.Fertilization = float64(r.PickI([]int{100, 100, 50, 150, 0}))

	gwShallow := r.Bool(p.ShallowGW)
	w.Soil = genSoil(r, &p, pt, c.PTF, fmt.Sprintf("%03d", r.Range(1, 899)), gwShallow)
	n := w.Soil.N()
	if p.LeachAtBottom {
		c.LeachDepth = n
	} else {
		c.LeachDepth = r.Range(1, n)
	}
	// polygon-file groundwater
	if gwShallow {
		a := r.Range(1, n+3)
		b := r.Range(1, n+3)
		w.GWHi, w.GWLo = min(a, b), max(a, b)
	} else {
		w.GWHi, w.GWLo = 99, 99
		if r.Bool(0.5) {
			a := r.Range(n+2, 60)
			w.GWHi, w.GWLo = a, a+r.Range(0, 20)
		}
	}
	if c.GroundWater == "gwTimeSeries" {
		w.GWSeries = genGWSeries(r, start, end, n, gwShallow)
	}

	// weather
	ws := &w.Weather
	ws.Sub = r.U64()
	ws.Lat = c.Latitude
	ws.TMean = round(27-0.45*math.Abs(c.Latitude)+r.FRange(-3, 3), 1)
	ws.TAmp = round(math.Min(22, 2+0.28*math.Abs(c.Latitude))+r.FRange(-1, 2), 1)
	c.TBase = round(ws.TMean+r.FRange(-1, 1), 1)
	ws.RainP = round(r.FRange(0.1, 0.5), 2)
	ws.RainMean = round(r.FRange(1.5, 9), 1)
	ws.HasRad = r.Bool(0.7)
	ws.HasSun = !ws.HasRad || r.Bool(0.4)
	ws.HasVerd = c.ETpot == 1 || r.Bool(0.3)
	ws.WindHeight = r.PickF([]float64{2, 2, 10, 3})
	ws.StationAlt = c.Altitude
	// the series covers whole years, possibly starting earlier
	fy := y0
	if c.WeatherLayout != 0 && r.Bool(0.3) {
		fy = y0 - r.Range(1, 3)
	}
	ws.FirstDay = DayOf(fy, 1, 1)
	ly := end.Year() + 1 // one spare year: the annual date may extend the run (DESIGN S9)
	ws.LastDay = DayOf(ly, 12, 31)

	// management
	w.Rot = genRotation(r, &p, pt, start, end)
	c.AutoSow, c.AutoFert, c.AutoIrr, c.AutoHarvest = false, false, false, false
	if p.AllowAuto {
		c.AutoSow, c.AutoFert, c.AutoIrr, c.AutoHarvest = r.Bool(0.5), r.Bool(0.5), r.Bool(0.5), r.Bool(0.5)
		if p.AutoNoDates {
			c.AutoSow, c.AutoHarvest = false, false
		}
	}
	w.Auto = genAutoLines(r, w)
	if !w.autoValid() {
		// tighten every window to the rotation's own dates
		for i := range w.Auto {
			for _, e := range w.Rot[1:] {
				if e.Crop == w.Auto[i].Crop {
					_, w.Auto[i].Sow1M, w.Auto[i].Sow1D = e.Sow.YMD()
					_, w.Auto[i].Sow2M, w.Auto[i].Sow2D = e.Sow.YMD()
					_, w.Auto[i].Har2M, w.Auto[i].Har2D = e.Harvest.YMD()
					break
				}
			}
		}
		if !w.autoValid() {
			c.AutoSow, c.AutoHarvest = false, false
		}
	}
	w.IrrOn = r.Bool(0.6)
	if !p.NoMgmt {
		// fertiliser: ascending dates, not inside [start, ...) constraints except >= start
		d := start + Day(r.Range(1, 200))
		for k := r.Range(0, 6); k > 0 && d < end; k-- {
			ft := pt.Fertilizer[r.Intn(len(pt.Fertilizer))]
			w.Fert = append(w.Fert, FertEvent{Day: d, Amt: r.PickI([]int{20, 60, 120, 200, 300}), Type: ft.Name})
			d += Day(r.Range(1, 250))
		}
		d = start + Day(r.Range(1, 200))
		for k := r.Range(0, 8); k > 0 && d < end; k-- {
			w.Irr = append(w.Irr, IrrEvent{Day: d, MM: r.PickI([]int{5, 15, 30, 60, 120}), NO3: r.PickI([]int{0, 0, 20, 50})})
			d += Day(r.Range(1, 120))
		}
		d = start + Day(r.Range(1, 200))
		for k := r.Range(0, 5); k > 0 && d < end; k-- {
			// with automatic harvest the model postpones every tillage that falls due while a crop with an open
			// harvest date is current (even before its sowing) until after the harvest: no tillage events then
			if !w.inGrowingAuto(d) && !(c.AutoHarvest && len(w.Rot) > 1) {
				w.Till = append(w.Till, TillEvent{Day: d, Depth: r.PickI([]int{5, 10, 12, 15, 20, 25, 28, 30, 40}), Type: r.PickI([]int{1, 1, 2})})
			}
			d += Day(r.Range(1, 300))
		}
	}
	// measurement / initial values
	m := &w.Meas
	m.Day = start
	if r.Bool(0.3) {
		m.Day = start - Day(r.Range(1, 100))
	}
	if p.AllowMeasMid && r.Bool(0.3) {
		m.Day = start + Day(r.Range(1, int(end-start)))
	}
	for i := range m.Nmin {
		m.Nmin[i] = r.Range(0, 60)
	}
	m.Mode = 1
	for i := range m.Water {
		m.Water[i] = round(r.FRange(0.2, 1.0), 3)
	}
	if r.Bool(0.25) {
		m.Again = r.Range(20, 400)
	}
	if r.Bool(0.15) {
		// absolute volumetric water contents (mode 3) of a dry to air-dry profile: far below the wilting point of most soils
		m.Mode = 3
		for i := range m.Water {
			if r.Bool(0.5) {
				m.Water[i] = round(r.FRange(0.005, 0.03), 3)
			} else {
				m.Water[i] = round(r.FRange(0.04, 0.12), 3)
			}
		}
	}
	if p.AllowPrognose && r.Bool(0.5) {
		c.Prognose = start + Day(r.Range(30, int(end-start)-5))
	}
	// storms etc.
	if r.Bool(p.Storms) {
		k := r.Range(1, 5)
		for i := 0; i < k; i++ {
			d := start + Day(r.Range(0, int(end-start)))
			ws.Events = append(ws.Events, WeatherEvent{Day: d, Kind: "rain", Val: float64(r.PickI([]int{50, 80, 120, 200, 300, 400}))})
		}
	}
	if r.Bool(0.3) {
		d := start + Day(r.Range(0, int(end-start)))
		ws.Events = append(ws.Events, WeatherEvent{Day: d, Kind: "drought", Len: r.Range(20, 90)})
	}
	if r.Bool(0.3) {
		d := start + Day(r.Range(0, int(end-start)))
		ws.Events = append(ws.Events, WeatherEvent{Day: d, Kind: "frost", Val: float64(-r.Range(5, 30)), Len: r.Range(1, 14)})
	}
	if r.Bool(0.3) {
		d := start + Day(r.Range(0, int(end-start)))
		ws.Events = append(ws.Events, WeatherEvent{Day: d, Kind: "heat", Val: float64(r.Range(30, 45)), Len: r.Range(1, 14)})
	}
	if r.Bool(0.2) {
		d := start + Day(r.Range(0, int(end-start)))
		ws.Events = append(ws.Events, WeatherEvent{Day: d, Kind: "calm", Val: round(r.FRange(0, 0.49), 2), Len: r.Range(1, 20)})
	}
	return w
}

func genGWSeries(r *RNG, start, end Day, n int, shallow bool) []GWPoint {
	var s []GWPoint
	d := start - Day(r.Range(-200, 400))
	k := r.Range(1, 40)
	for i := 0; i < k; i++ {
		lv := float64(r.Range(n+2, 60))
		if shallow {
			lv = round(r.FRange(1, float64(n)+3), 1)
		}
		if len(s) > 0 && r.Bool(0.3) {
			lv = s[r.Intn(len(s))].Level // revisit earlier levels
		}
		s = append(s, GWPoint{Day: d, Level: lv})
		d += Day(r.Range(1, 800))
		if d > end+400 {
			break
		}
	}
	return s
}

func (w *World) autoLine(crop string) *AutoLine {
	for i := range w.Auto {
		if w.Auto[i].Crop == crop {
			return &w.Auto[i]
		}
	}
	return nil
}

// AutoWindows returns the sowing window and latest harvest date the automatic-management table gives rotation entry i
// (month/day of the table in the year of the rotation file's dates).
func (w *World) AutoWindows(i int) (sow1, sow2, har2 Day) {
	e := w.Rot[i]
	a := w.autoLine(e.Crop)
	if a == nil {
		return e.Sow, e.Sow, e.Harvest
	}
	return DayOf(e.Sow.Year(), a.Sow1M, a.Sow1D), DayOf(e.Sow.Year(), a.Sow2M, a.Sow2D), DayOf(e.Harvest.Year(), a.Har2M, a.Har2D)
}

// autoValid: with automatic sowing/harvest every sowing window opens after the latest harvest of the
// preceding crop and every crop has time to grow (the quantifier of C16; also keeps other checks on valid input).
func (w *World) autoValid() bool {
	c := &w.Cfg
	if !c.AutoSow && !c.AutoHarvest {
		return true
	}
	prevEnd := w.Rot[0].Harvest
	for i := 1; i < len(w.Rot); i++ {
		e := w.Rot[i]
		s1, s2, h2 := w.AutoWindows(i)
		firstSow, lastSow, lastHar := e.Sow, e.Sow, e.Harvest
		if c.AutoSow {
			firstSow, lastSow = s1, s2
		}
		if c.AutoHarvest {
			lastHar = h2
		}
		gap := Day(6)
		if w.TightGap {
			gap = 1 // stratum: the window may open the day after the preceding latest harvest (still inside the property's quantifier)
		}
		if firstSow < prevEnd+gap || lastSow < firstSow || lastHar < lastSow+60 {
			return false
		}
		prevEnd = lastHar
	}
	return true
}

func genAutoLines(r *RNG, w *World) []AutoLine {
	seen := map[string]bool{}
	var out []AutoLine
	for i, e := range w.Rot {
		if seen[e.Crop] {
			continue
		}
		seen[e.Crop] = true
		a := AutoLine{Crop: e.Crop}
		// sowing window around the rotation's sowing date; harvest latest after rotation harvest
		s := e.Sow
		if i == 0 {
			s = e.Harvest - 120
		}
		s1 := s - Day(r.Range(0, 20))
		s2 := s + Day(r.Range(0, 30))
		if s1.Year() != s.Year() {
			s1 = DayOf(s.Year(), 1, 1)
		}
		if s2.Year() != s.Year() {
			s2 = DayOf(s.Year(), 12, 31)
		}
		_, a.Sow1M, a.Sow1D = s1.YMD()
		_, a.Sow2M, a.Sow2D = s2.YMD()
		h2 := e.Harvest + Day(r.Range(0, 30))
		if h2.Year() != e.Harvest.Year() {
			h2 = DayOf(e.Harvest.Year(), 12, 31)
		}
		_, a.Har2M, a.Har2D = h2.YMD()
		a.TS = round(r.FRange(3, 12), 1)
		if winterCrops[e.Crop] {
			a.TS = round(r.FRange(12, 25), 1)
			a.TSIsMax = true
		}
		a.SMoMin, a.SMoMax = 0, round(r.FRange(80, 100), 1)
		a.HMoMin, a.HMoMax = 0, round(r.FRange(80, 99), 1)
		a.RainLim = round(r.FRange(1, 6), 1)
		a.RainAct = round(r.FRange(0.1, 1), 1)
		a.TAccu = r.PickI([]int{0, 80, 200, 380})
		a.TBase = r.PickI([]int{0, 5})
		a.IrrSt1 = r.Range(0, 4) // 0: from sowing on (rows of catch crops in the shipped table)
		a.IrrSt2 = r.Range(a.IrrSt1, 6)
		a.NDem1, a.NDem2, a.NDem3 = r.PickI([]int{0, 60, 120}), r.PickI([]int{0, 60, 120}), r.PickI([]int{0, 40})
		a.St1, a.St2, a.St3 = r.PickS([]string{"S0", "S2", "59", "0"}), r.PickS([]string{"S3", "0", "120"}), r.PickS([]string{"S4", "0"})
		a.TWindow = r.PickI([]int{5, 10, 14})
		a.OrgF, a.OrgAmt, a.App = "---", 0, "00"
		a.IrrLow, a.IrrDep, a.IrrMax = r.PickI([]int{40, 50, 60}), r.PickI([]int{30, 60, 90}), r.PickI([]int{10, 20, 25, 50})
		out = append(out, a)
	}
	return out
}

// perennialStand replaces the rotation by a perennial stand (lucerne, grassland) that is cut several times and follows
// itself, the first cut soon after an autumn sowing (little mass on the field), cuts left on the field or removed.
func perennialStand(r *RNG, w *World) {
	per := r.PickS([]string{"AA", "GR"})
	if paramTables.Crops[per] {
		y := w.Start().Year()
		sow := DayOf(y, 9, r.Range(5, 30))
		if sow <= w.Start()+3 {
			sow = DayOf(y+1, 9, r.Range(5, 30))
		}
		rot := w.Rot[:1]
		har := sow + Day(r.Range(25, 70))
		for k := 0; k < r.Range(2, 4); k++ {
			rot = append(rot, RotEntry{Crop: per, Sow: sow, Harvest: har, Rex: r.PickI([]int{0, 0, 100})})
			sow = har + 1
			if k == 0 {
				har = DayOf(har.Year()+1, 6, r.Range(1, 28))
			} else {
				har = har + Day(r.Range(40, 90))
			}
		}
		w.Rot = rot
		w.Till = nil
		w.Cfg.End = rot[len(rot)-1].Harvest + Day(r.Range(10, 60))
		if w.Weather.LastDay < DayOf(w.Cfg.End.Year()+1, 12, 31) {
			w.Weather.LastDay = DayOf(w.Cfg.End.Year()+1, 12, 31)
		}
		var f []FertEvent
		for _, e := range w.Fert {
			if e.Day < w.Cfg.End {
				f = append(f, e)
			}
		}
		w.Fert = f
		fixAnnual(w)
		w.Auto = genAutoLines(r, w)
	}
}
