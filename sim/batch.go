package main

// Batch scenarios: several projects, several lines, the real dispatcher under
// the seeded scheduler. Shared by C03 (determinism / scheduling independence),
// C11 (isolation / per-run failure), C14 and C18.

import (
	"bytes"
	"encoding/json"
	"fmt"
	"os"
	"os/exec"
	"path/filepath"
	"sort"
	"strings"
	"sync"
	"syscall"
	"time"
)

// batchProfile: short runs (1-3 years) so that hook counts stay in the thousands.
func batchProfile() Profile {
	p := DefaultProfile()
	p.MinYears, p.MaxYears = 1, 2
	p.GWModes = []string{"soilfile", "polygonfile", "gwTimeSeries"}
	p.AllowPTF = true
	p.Storms = 0.3
	p.ShallowGW = 0.3
	p.ForceDaily = false
	return p
}

// genBatch draws worlds and lines. withBad adds failing lines of the reported-error classes.
func genBatch(r *RNG, withBad bool, maxLines int) *Scenario {
	sc := &Scenario{Kind: "batch"}
	nw := r.Range(1, 4)
	for i := 0; i < nw; i++ {
		p := batchProfile()
		// automatic management in 40 % of the projects (with failing-line classes in the batch only irrigation and
		// fertilisation: the tillage-inside-the-crop class relies on the rotation's own dates)
		p.AllowAuto = r.Bool(0.4)
		p.AutoNoDates = withBad
		if withBad {
			p.BareProb = 0 // the tillage-in-crop class needs a crop
		}
		w := GenWorld(r.Sub("world", uint64(i)), p, paramTables)
		w.Loc = fmt.Sprintf("p%d%s", i, w.Loc)
		w.FCode = fmt.Sprintf("w%d%s", i, w.FCode)
		if withBad {
			w.BadEnt = true
			w.Cfg.InitSelection = 1
		}
		sc.Worlds = append(sc.Worlds, w)
	}
	// stratum: two projects whose folder (and therefore every project file name) differ in letter case only
	if nw >= 2 && r.Bool(0.15) {
		sc.Worlds[1].Loc = strings.ToUpper(sc.Worlds[0].Loc)
		if sc.Worlds[1].Loc == sc.Worlds[0].Loc {
			sc.Worlds[1].Loc = "p1" + sc.Worlds[1].Loc
		}
	}
	// stratum: the projects use the same soil id, plot number and field id (ids are only unique inside a project)
	if nw >= 2 && r.Bool(0.3) {
		for _, w := range sc.Worlds[1:] {
			w.Soil.ID, w.Plot, w.Field = sc.Worlds[0].Soil.ID, sc.Worlds[0].Plot, sc.Worlds[0].Field
		}
	}
	// stratum: user-defined crop codes (each world renames its first crop to a code of its own; the codes get the
	// same per-run crop id, so anything that confuses runs by that id shows)
	if r.Bool(0.3) {
		for i, w := range sc.Worlds {
			if len(w.Rot) > 1 {
				w.CropAlias = map[string]string{w.Rot[1].Crop: "X" + string(rune('A'+i))}
			}
		}
	}
	// stratum: projects with a second input set (weather folder wx2, file extension alt) that some lines select
	for i, w := range sc.Worlds {
		if r.Bool(0.35) {
			w.Alt = r.Sub("alt", uint64(i)).U64() | 1
		}
	}
	aliased := false
	for _, w := range sc.Worlds {
		aliased = aliased || len(w.CropAlias) > 0
	}
	if !aliased && nw >= 2 && r.Bool(0.25) {
		// stratum: one project runs on a trimmed parameter set (its texture tables list only its own textures)
		sc.Params = map[string]string{"pless": fmt.Sprint(r.Intn(nw))}
	}
	nl := r.Range(2, maxLines)
	if r.Bool(0.5) {
		nl = r.Range(2, min(8, maxLines))
	}
	overrides := []func(w *World) string{
		func(w *World) string { return fmt.Sprintf("NDeposition=%d", r.PickI([]int{0, 10, 33, 60})) },
		func(w *World) string { return fmt.Sprintf("Latitude=%.2f", r.FRange(20, 65)) },
		func(w *World) string { return fmt.Sprintf("Fertilization=%d", r.PickI([]int{50, 80, 120})) },
		func(w *World) string { return fmt.Sprintf("KcFactorBareSoil=%.2f", r.FRange(0.3, 1)) },
		func(w *World) string { return fmt.Sprintf("CO2concentration=%d", r.Range(300, 700)) },
		func(w *World) string { return fmt.Sprintf("OutputIntervall=%d", r.PickI([]int{0, 1, 5})) },
		func(w *World) string { return fmt.Sprintf("ETpot=%d", r.Range(1, 5)) },
		func(w *World) string { return fmt.Sprintf("LeachingDepth=%d", r.Range(1, w.Soil.N())) },
		// the source of the groundwater level by its number on the line (0 polygon file, 1 soil file): both exist in every project
		func(w *World) string { return fmt.Sprintf("GroundWaterFrom=%d", r.Intn(2)) },
	}
	badKinds := []string{"unknown-soil", "unknown-field", "bad-texture", "bad-fractions", "weather-gap", "till-in-crop", "startyear", "weather-late", "args-no-project", "args-no-plot", "args-bad-overwrite", "weather-short", "weather-folder", "weather-unopenable"}
	applyBad := func(bl *BatchLine, w *World) {
		if bl.Bad == "till-in-crop" && len(w.Rot) < 2 {
			bl.Bad = "unknown-soil" // no crop in this world: the tillage class cannot be built
		}
		if bl.Bad == "weather-late" && w.earlyFieldDays() == 0 {
			bl.Bad = "weather-gap"
		}
		if bl.Bad == "weather-folder" && w.Cfg.Preco {
			bl.Bad = "weather-gap" // the correction table of the selected folder is a pooled file: its absence ends the process
		}
		switch bl.Bad {
		case "weather-unopenable":
			// the station's weather file exists but cannot be opened
			bl.Extra = append(bl.Extra, "fcode="+w.FCode+"loop")
		case "weather-folder":
			// the line selects a weather folder that does not hold the station's file (the project's own folder does)
			bl.Extra = append(bl.Extra, "WeatherFolder=wxnone")
		case "unknown-soil":
			bl.Extra = append(bl.Extra, "soilId=7ZZ")
		case "unknown-field":
			bl.Extra = append(bl.Extra, "plotNr=19001")
		case "bad-texture":
			bl.Extra = append(bl.Extra, "soilId=8T1")
		case "bad-fractions":
			bl.Extra = append(bl.Extra, "soilId=8F1", fmt.Sprintf("PTF=%d", r.Range(1, 4)))
		case "weather-gap":
			bl.Extra = append(bl.Extra, "fcode="+w.FCode+"gap")
		case "args-no-project":
			bl.Drop = []string{"project"}
			bl.Extra = append(bl.Extra, "projekt="+w.Loc) // misspelt key
		case "args-no-plot":
			bl.Drop = []string{"plotNr"}
			bl.Extra = append(bl.Extra, "plotnr="+w.Plot)
		case "args-bad-overwrite":
			bl.Extra = append(bl.Extra, "CropFile=PARAM.WW", r.PickS([]string{"c_NOSUCHPARAM=1", "c_TSUM_0=100", "c_TSUM_12=100", "c_PARTITION_2_9=0.5"}))
		case "weather-short":
			bl.Extra = append(bl.Extra, "fcode="+w.FCode+"short")
		case "weather-late":
			// the field starts before the first record of a series that another (good) line of the batch may have read already
			bl.Extra = append(bl.Extra, "plotNr=19003", "fcode="+w.FCode+"late")
		case "till-in-crop":
			bl.Extra = append(bl.Extra, "plotNr=19002")
		case "startyear":
			bl.Extra = append(bl.Extra, fmt.Sprintf("StartYear=%d", w.Cfg.StartYear+r.PickI([]int{-1, 1})))
		}
	}
	for i := 0; i < nl; i++ {
		wi := r.Intn(nw)
		w := sc.Worlds[wi]
		bl := BatchLine{World: wi}
		for k := r.Intn(3); k > 0; k-- {
			bl.Extra = append(bl.Extra, overrides[r.Intn(len(overrides))](w))
		}
		if w.Alt != 0 {
			if r.Bool(0.4) {
				bl.Extra = append(bl.Extra, "WeatherFolder=wx2")
			}
			if r.Bool(0.4) {
				bl.Extra = append(bl.Extra, "fileExtension=alt")
			}
			if r.Bool(0.3) {
				bl.Extra = append(bl.Extra, "soilId=9A1")
			}
		}
		if r.Bool(0.25) && len(sc.Lines) > 0 {
			// repeated line (same arguments, distinct output id)
			prev := sc.Lines[r.Intn(len(sc.Lines))]
			bl = BatchLine{World: prev.World, Extra: append([]string{}, prev.Extra...), Bad: prev.Bad, Drop: prev.Drop}
		} else if withBad && r.Bool(0.4) {
			bl.Bad = badKinds[r.Intn(len(badKinds))]
			applyBad(&bl, w)
		}
		if lw := sc.Worlds[bl.World]; withBad && bl.Bad == "" && lw.earlyFieldDays() > 0 && r.Bool(0.35) && !strings.Contains(strings.Join(bl.Extra, " "), "fcode=") {
			bl.Extra = append(bl.Extra, "fcode="+lw.FCode+"late") // covered: the series begins on this field's first day
		}
		sc.Lines = append(sc.Lines, bl)
	}
	if withBad && r.Bool(0.25) {
		// stratum: a storm of failures of ONE class (6-14 more lines failing the same way, anywhere in the batch) with
		// good lines behind them: whatever an error path forgets to give back (a token, a slot, a lock, a buffer)
		// runs out only after several failures of that path in one session
		kind := badKinds[r.Intn(len(badKinds))]
		wi := r.Intn(nw)
		for k := r.Range(6, 14); k > 0; k-- {
			bl := BatchLine{World: wi, Bad: kind}
			applyBad(&bl, sc.Worlds[wi])
			at := r.Intn(len(sc.Lines) + 1)
			sc.Lines = append(sc.Lines[:at], append([]BatchLine{bl}, sc.Lines[at:]...)...)
		}
		for k := r.Range(1, 3); k > 0; k-- {
			sc.Lines = append(sc.Lines, BatchLine{World: r.Intn(nw)})
		}
		nl = len(sc.Lines)
		if sc.Params == nil {
			sc.Params = map[string]string{}
		}
		sc.Params["storm"] = kind
	}
	for i := range sc.Lines {
		// the second weather folder holds the station's regular series only: lines that select another series by its code stay in wx
		if ex := strings.Join(sc.Lines[i].Extra, " "); strings.Contains(ex, "fcode=") && strings.Contains(ex, "WeatherFolder=wx2") {
			var kept []string
			for _, a := range sc.Lines[i].Extra {
				if a != "WeatherFolder=wx2" {
					kept = append(kept, a)
				}
			}
			sc.Lines[i].Extra = kept
		}
	}
	sp := &SchedSpec{Sub: r.U64()}
	sp.Concurrency = r.Range(1, min(16, nl+1))
	if r.Bool(0.3) {
		sp.Concurrency = r.PickI([]int{1, 2, 16})
	}
	sp.Policy = r.PickS([]string{"random", "random", "random", "fifo", "lifo", "starve", "burst"})
	sp.RecordP = r.PickF([]float64{1, 1.0 / 7, 1.0 / 30, 1.0 / 365})
	sp.NoPoolYield = r.Bool(0.15) // coarse stratum: no parking at pooled-file Gets
	sp.OpP = r.PickF([]float64{0, 0, 0, 1.0 / 400, 1.0 / 40}) // fine stratum: runs also park in the middle of a record
	if sp.OpP >= 1.0/40 && len(sc.Lines) > 5 {
		// parking every 40th write call of every run: only small batches stay inside the decision budget of a scenario
		// (a record of the verification output is some 600 write calls; 200 000 decisions per scenario)
		sp.OpP = 1.0 / 400
	}
	sc.Sched = sp
	return sc
}

// lineArgs builds the argument list of batch line i.
func (sc *Scenario) lineArgs(i int) []string {
	bl := sc.Lines[i]
	w := sc.Worlds[bl.World]
	args := []string{"project=" + w.Loc, "plotNr=" + w.Plot, "poligonID=" + sc.polyOf(i), "fcode=" + w.FCode}
	if len(w.CropAlias) > 0 {
		args = append(args, "parameter=pcustom")
	} else if k, ok := sc.plessWorld(); ok && k == bl.World {
		args = append(args, "parameter=pless")
	}
	// later key=value tokens win in the run's argument map
	args = append(args, bl.Extra...)
	if len(bl.Drop) > 0 {
		var kept []string
		for _, a := range args {
			drop := false
			for _, k := range bl.Drop {
				drop = drop || strings.HasPrefix(a, k+"=")
			}
			if !drop {
				kept = append(kept, a)
			}
		}
		args = kept
	}
	return args
}

// plessWorld: the world whose lines run on a reduced parameter folder (texture tables trimmed to its own textures).
func (sc *Scenario) plessWorld() (int, bool) {
	v, ok := sc.Params["pless"]
	if !ok {
		return 0, false
	}
	k := 0
	fmt.Sscan(v, &k)
	return k, k >= 0 && k < len(sc.Worlds)
}

// polyOf: the polygon id of line i (part of its output id).
func (sc *Scenario) polyOf(i int) string {
	if t := sc.Lines[i].OutTag; t != "" {
		return t
	}
	return fmt.Sprintf("L%02d", i)
}

func (sc *Scenario) lineText(i int) string { return strings.Join(sc.lineArgs(i), " ") }

// materialiseBatch writes all projects under one root.
func materialiseBatch(sc *Scenario, env *Env, oc *OutputCfg) (string, error) {
	root := env.NewRoot()
	for _, w := range sc.Worlds {
		ww := BuildWeather(&w.Weather, w.Cfg.NoneValue, sc.Grid)
		if err := WriteFiles(root, w.Files(oc, ww), env.ParamDir); err != nil {
			return "", err
		}
	}
	if err := customParamFolder(root, env.ParamDir, sc.Worlds); err != nil {
		return "", err
	}
	if k, ok := sc.plessWorld(); ok {
		if err := reducedParamFolder(root, env.ParamDir, sc.Worlds[k]); err != nil {
			return "", err
		}
	}
	return root, nil
}

// outputsOf selects the files of one line (by output id) from a simulated disk.
func outputsOf(d *SimDisk, outID string) map[string][]byte {
	m := map[string][]byte{}
	for _, p := range d.Paths() {
		base := p[strings.LastIndexByte(p, '/')+1:]
		// <kind letter><output id>.<extension>: the id must match as a whole (ids of a batch may be prefixes of each other)
		if len(base) > 1 && strings.HasPrefix(base[1:], outID+".") {
			m[base] = d.Get(p).Data
		}
	}
	return m
}

func outIDOf(sc *Scenario, i int) string {
	args := sc.lineArgs(i)
	poly, plot := "", ""
	for _, a := range args {
		if strings.HasPrefix(a, "poligonID=") {
			poly = a[len("poligonID="):]
		}
		if strings.HasPrefix(a, "plotNr=") {
			plot = a[len("plotNr="):]
		}
	}
	return poly + plot
}

type lineRef struct {
	files   map[string][]byte
	success bool
	err     string
	crashed string
	died    bool // the reference process exited (log.Fatal): the line kills a process even when run alone
	hang    string // file of the innermost model frame that was still running when the reference run was stopped
	hangKnown bool
	sameAs  int  // 1-based index of an earlier line with the same arguments (reference shared, output id renamed)
}

// renameFiles maps the result files of one output id to another (file names and the polygon id echoed inside).
func renameFiles(files map[string][]byte, fromID, toID, fromPoly, toPoly string) map[string][]byte {
	out := map[string][]byte{}
	for n, d := range files {
		out[strings.Replace(n, fromID, toID, 1)] = []byte(strings.ReplaceAll(string(d), fromPoly, toPoly))
	}
	return out
}

// soloReference executes line i alone: in a fresh process (default), so that nothing a previous run left in
// package-level state of the model can reach it — exactly what "the same line run alone" means for a user —
// or in this process in a fresh session (VERIF_INPROC_REF=1, used by the minimiser's inner loop only).
func soloReference(sc *Scenario, env *Env, root string, i int) *lineRef {
	if os.Getenv("VERIF_INPROC_REF") == "" {
		if ref := freshReference(env, root, sc.lineArgs(i), outIDOf(sc, i)); ref != nil {
			return ref
		}
	}
	disk := NewSimDisk()
	out := env.RunSingle(root, sc.lineArgs(i), nil, disk)
	return &lineRef{files: outputsOf(disk, outIDOf(sc, i)), success: out.Success, err: out.Err, crashed: out.Panic}
}

type refResult struct {
	Files   map[string][]byte `json:"files"`
	Success bool              `json:"success"`
	Err     string            `json:"err"`
	Panic   string            `json:"panic"`
}

func freshReference(env *Env, root string, args []string, outID string) *lineRef {
	outFile := filepath.Join(env.Scratch, fmt.Sprintf("ref-%d.json", time.Now().UnixNano()))
	defer os.Remove(outFile)
	ab, _ := json.Marshal(args)
	cmd := exec.Command(os.Args[0], "-test.run", "^TestVerif$", "-test.timeout", "0")
	cmd.Env = append(os.Environ(), "VERIF_MODE=ref", "VERIF_REF_ROOT="+root, "VERIF_REF_ARGS="+string(ab), "VERIF_REF_OUTID="+outID, "VERIF_OUT="+outFile, "VERIF_SCRATCH="+env.Scratch)
	var eb bytes.Buffer
	cmd.Stderr, cmd.Stdout = &eb, &eb
	cmd.Dir = env.Scratch // a relative result folder named on the line is created here
	if err := cmd.Start(); err != nil {
		return nil
	}
	done := make(chan error, 1)
	go func() { done <- cmd.Wait() }()
	var err error
	select {
	case err = <-done:
	case <-time.After(time.Duration(envInt("VERIF_REF_TIMEOUT_S", 40)) * time.Second):
		// a line that normally needs well under a second is still running: ask for a goroutine dump and classify it
		cmd.Process.Signal(syscall.SIGQUIT)
		select {
		case <-done:
		case <-time.After(5 * time.Second):
			cmd.Process.Kill()
			<-done
		}
		where := runningModelFrame(eb.String())
		return &lineRef{files: map[string][]byte{}, success: false, err: "the run did not terminate", died: true, hang: where, hangKnown: where != ""}
	}
	b, rerr := os.ReadFile(outFile)
	if rerr != nil {
		// the reference process died (log.Fatal in the model, or a panic): the line cannot run alone either
		msg := firstLine(lastNonEmpty(eb.String()))
		if err != nil && msg == "" {
			msg = err.Error()
		}
		return &lineRef{files: map[string][]byte{}, success: false, err: "process exit: " + msg, died: true}
	}
	var rr refResult
	if json.Unmarshal(b, &rr) != nil {
		return nil
	}
	if rr.Files == nil {
		rr.Files = map[string][]byte{}
	}
	return &lineRef{files: rr.Files, success: rr.Success, err: rr.Err, crashed: rr.Panic}
}

// refMain is the child side of freshReference.
func refMain() int {
	env, err := setupEnv()
	if err != nil {
		fmt.Fprintln(os.Stderr, "env:", err)
		return 2
	}
	defer env.Close()
	var args []string
	if json.Unmarshal([]byte(os.Getenv("VERIF_REF_ARGS")), &args) != nil {
		return 2
	}
	disk := NewSimDisk()
	out := env.RunSingle(os.Getenv("VERIF_REF_ROOT"), args, nil, disk)
	rr := refResult{Files: outputsOf(disk, os.Getenv("VERIF_REF_OUTID")), Success: out.Success, Err: out.Err, Panic: out.Panic}
	b, _ := json.Marshal(rr)
	if os.WriteFile(os.Getenv("VERIF_OUT"), b, 0o644) != nil {
		return 2
	}
	return 0
}

func diffFiles(a, b map[string][]byte) string {
	names := map[string]bool{}
	for n := range a {
		names[n] = true
	}
	for n := range b {
		names[n] = true
	}
	ns := make([]string, 0, len(names))
	for n := range names {
		ns = append(ns, n)
	}
	sort.Strings(ns)
	for _, n := range ns {
		x, okx := a[n]
		y, oky := b[n]
		if !okx {
			return fmt.Sprintf("file %s only in the batch run (%d bytes)", n, len(y))
		}
		if !oky {
			return fmt.Sprintf("file %s only in the reference run (%d bytes)", n, len(x))
		}
		if !bytes.Equal(x, y) {
			k := 0
			for k < len(x) && k < len(y) && x[k] == y[k] {
				k++
			}
			line := 1 + bytes.Count(x[:k], []byte("\n"))
			return fmt.Sprintf("file %s differs at byte %d (record %d): reference %q vs batch %q", n, k, line, snippet(x, k), snippet(y, k))
		}
	}
	return ""
}

func snippet(b []byte, k int) string {
	lo, hi := k-20, k+30
	if lo < 0 {
		lo = 0
	}
	if hi > len(b) {
		hi = len(b)
	}
	return string(b[lo:hi])
}

// errorClassOf maps an error text to the reported-error class it belongs to.
func errorClassOf(errText string) string {
	switch {
	case strings.Contains(errText, "SoilID") && strings.Contains(errText, "not found"):
		return "unknown-soil"
	case strings.Contains(errText, "Field_ID") && strings.Contains(errText, "not found"):
		return "unknown-field"
	case strings.Contains(errText, "soil texture"):
		return "bad-texture"
	case strings.Contains(errText, "does not sum up to 100"):
		return "bad-fractions"
	case strings.Contains(errText, "missing days"):
		return "weather-gap"
	case strings.Contains(errText, "failed to load file") && strings.Contains(errText, "wxnone"):
		return "weather-folder"
	case strings.Contains(errText, "was not loaded") || strings.Contains(errText, "ends on day") || strings.Contains(errText, "failed to load file"):
		return "weather-short"
	case strings.Contains(errText, "tillage date"):
		return "till-in-crop"
	case strings.Contains(errText, "start year"):
		return "startyear"
	case strings.Contains(errText, "arguments requrired"):
		return "args-missing"
	case strings.Contains(errText, "invalid crop parameter") || strings.Contains(errText, "invalid development stage") || strings.Contains(errText, "invalid partition"):
		return "args-bad-overwrite"
	}
	return "other"
}

// ---------------------------------------------------------------- execution and oracles

type batchViol struct {
	oracle, class, detail, line string
}

// checkBatchOutcome evaluates the oracles shared by C03 and C11 on one executed batch.
// order[i] is the index (into sc.Lines) of the i-th line of the executed batch file.
func checkBatchOutcome(sc *Scenario, order []int, refs []*lineRef, out *BatchOutcome, res *Result, aborted bool) []batchViol {
	var vs []batchViol
	add := func(oracle, class, detail, line string) {
		vs = append(vs, batchViol{oracle, class, detail, line})
	}
	if out.Panic != "" {
		add("termination", "panic-in-batch", "panic while the batch ran: "+firstLine(out.Panic), "")
		return vs
	}
	if out.DecisionCap {
		hist := map[string]int{}
		for _, rel := range out.Released {
			k := rel.Task + " " + rel.Point
			if rel.Point == "pool.get" || strings.HasPrefix(rel.Point, "disk.") {
				k += " " + rel.Detail[strings.LastIndexByte(rel.Detail, '/')+1:]
			}
			hist[k]++
		}
		type kv struct {
			k string
			n int
		}
		var top []kv
		for k, n := range hist {
			top = append(top, kv{k, n})
		}
		sort.Slice(top, func(i, j int) bool { return top[i].n > top[j].n || (top[i].n == top[j].n && top[i].k < top[j].k) })
		if len(top) > 6 {
			top = top[:6]
		}
		add("termination", "decision-budget-exhausted", fmt.Sprintf("the batch did not finish within 200000 scheduler decisions; most frequent releases: %v", top), "")
		return vs
	}
	if aborted {
		return vs
	}
	if out.Deadlock != "" {
		add("termination", "batch-deadlock", "runs or dispatcher blocked forever: "+firstLine(out.Deadlock), "")
		return vs
	}
	rep := parseDispatcher(out.Stdout)
	if !rep.HasCount {
		add("error-summary", "no-error-count-line", "the dispatcher printed no 'Number of errors' line", "")
	}
	// expected failures: position in the executed batch file gives the log id
	wantFail := map[string]string{}
	for pos, li := range order {
		if !refs[li].success {
			wantFail[fmt.Sprintf("[%d]", pos)] = refs[li].err
		}
	}
	victimID, victimLine := "", -1
	if out.Victim != nil {
		victimID, victimLine = fmt.Sprintf("[%d]", out.Victim.pos), out.Victim.line
		delete(wantFail, victimID)
	}
	excused := map[string]bool{}
	for pos := range out.Excused {
		id := fmt.Sprintf("[%d]", pos)
		excused[id] = true
		delete(wantFail, id)
	}
	gotFail := map[string]int{}
	for _, l := range rep.ErrorLines {
		id := l
		if k := strings.IndexByte(l, ' '); k > 0 {
			id = l[:k]
		}
		gotFail[id]++
		if want, ok := wantFail[id]; ok {
			if !strings.Contains(stripLogIDs(l), stripLogIDs(want)) {
				add("error-summary", "error-text-of-other-line", fmt.Sprintf("summary line %q does not carry the error of its own line (%q)", l, want), id)
			}
		}
	}
	for id := range wantFail {
		if gotFail[id] != 1 {
			add("error-summary", "failed-line-not-listed-once", fmt.Sprintf("line %s fails alone (%s) but is listed %d times in the error summary", id, wantFail[id], gotFail[id]), id)
		}
	}
	for id, n := range gotFail {
		if excused[id] {
			if n > 1 {
				add("error-summary", "failed-line-not-listed-once", fmt.Sprintf("line %s is listed %d times in the error summary", id, n), id)
			}
			continue
		}
		if id == victimID {
			// a run whose disk failed may end with an error of its own, but only once and under its own id
			if n > 1 {
				add("error-summary", "failed-line-not-listed-once", fmt.Sprintf("line %s (result disk failing) is listed %d times in the error summary", id, n), id)
			}
			continue
		}
		if _, ok := wantFail[id]; !ok {
			add("error-summary", "good-line-listed-as-failed", fmt.Sprintf("line %s succeeds alone but is listed %d times in the error summary", id, n), id)
		}
	}
	if rep.HasCount && rep.NumErrors != len(rep.ErrorLines) {
		add("error-summary", "error-count-mismatch", fmt.Sprintf("count line says %d, summary lists %d", rep.NumErrors, len(rep.ErrorLines)), "")
	}
	// result streams equal the solo reference, byte for byte
	for pos, li := range order {
		if li == victimLine && out.Victim != nil && pos == out.Victim.pos {
			continue
		}
		if _, ok := out.Excused[pos]; ok {
			continue
		}
		got := outputsOf(out.Disk, outIDOf(sc, li))
		want := refs[li].files
		if out.RealDisk && !refs[li].success {
			// on the real disk a program may tidy up after a failed run (the reference comes from the simulated disk, which
			// knows no removal): what a failing line has left must equal its solo run, but it need not have left everything
			want = map[string][]byte{}
			for n, d := range refs[li].files {
				if _, ok := got[n]; ok {
					want[n] = d
				}
			}
		}
		if d := diffFiles(want, got); d != "" {
			add("solo-equivalence", "stream-differs-from-solo-run", fmt.Sprintf("line [%d] (%s): %s", pos, sc.lineText(li), d), fmt.Sprintf("[%d]", pos))
			break
		}
	}
	// every file on the disk was closed, nothing written after close
	for _, p := range out.Disk.Paths() {
		f := out.Disk.Get(p)
		if f.Open && f.Opens > 0 {
			add("streams", "file-left-open", "result file left open: "+p, "")
			break
		}
		if f.WritesAfterEnd > 0 {
			add("streams", "write-after-close", "write after close: "+p, "")
			break
		}
	}
	// each run opens only paths derived from its own output id
	for pos, li := range order {
		id := fmt.Sprintf("[%d]", pos)
		oid := outIDOf(sc, li)
		for _, p := range out.OpensBy[id] {
			base := p[strings.LastIndexByte(p, '/')+1:]
			if !(len(base) > 1 && strings.HasPrefix(base[1:], oid+".")) {
				add("own-files", "run-opened-foreign-file", fmt.Sprintf("run %s (output id %s) opened %s", id, oid, p), id)
			}
		}
	}
	// pool history: a path always yields the bytes of its first load (set-once register)
	first := map[string]poolEvent{}
	for _, ev := range out.Pool {
		if f, ok := first[ev.Path]; !ok {
			first[ev.Path] = ev
		} else if f.Hash != ev.Hash || f.Len != ev.Len {
			add("pool-history", "pooled-file-content-changed", fmt.Sprintf("%s: first load %s/%d bytes, later Get (by %s) returned %s/%d bytes", ev.Path, f.Hash, f.Len, ev.Task, ev.Hash, ev.Len), ev.Task)
			break
		}
	}
	res.add("decisions", float64(len(out.Decisions)))
	res.add("pool.gets", float64(len(out.Pool)))
	res.add("pool.paths", float64(len(first)))
	res.add("reach.max-parked", float64(out.MaxParked))
	if out.MaxParked >= 2 {
		res.add("reach.interleaved", 1)
	}
	if len(wantFail) > 0 {
		res.add("reach.failing-lines", float64(len(wantFail)))
	}
	if out.Windows > 0 {
		res.add("fault.overlap-window", float64(out.Windows))
	}
	return vs
}

func batchLinesText(sc *Scenario, order []int, crlf bool) []string {
	var lines []string
	for _, li := range order {
		lines = append(lines, sc.lineText(li))
	}
	return lines
}

func identityOrder(n int) []int {
	o := make([]int, n)
	for i := range o {
		o[i] = i
	}
	return o
}

// execBatch runs a batch scenario. Modes (sc.Params["mode"]): serial (default),
// permute (second batch with permuted lines / other concurrency), stale (planted
// files), crash (abort at a decision, re-run over surviving prefixes), overlap
// (windows of truly parallel runs; meant for the -race worker).
func execBatch(sc *Scenario, env *Env) *Result {
	t0 := time.Now()
	if sc.Params["mode"] == "unreadable" && sc.Params["child"] == "" {
		return execUnreadableParent(sc, env)
	}
	res := &Result{Idx: sc.Idx, Status: "ok"}
	root, err := materialiseBatch(sc, env, nil)
	if err != nil {
		res.Status, res.Note = "invalid", err.Error()
		return res
	}
	refs := make([]*lineRef, len(sc.Lines))
	if os.Getenv("VERIF_INPROC_REF") == "" {
		// fresh-process references, a few at a time (identical argument lists share one reference run)
		type job struct{ i int }
		same := map[string]int{}
		sem := make(chan struct{}, envInt("VERIF_REF_PAR", 4))
		var wg sync.WaitGroup
		for i := range sc.Lines {
			// (references are shared by renaming the polygon id inside the files, which only works between ids of one length)
			key := fmt.Sprint(sc.Lines[i].World, "|", strings.Join(sc.Lines[i].Extra, " "), "|", strings.Join(sc.Lines[i].Drop, " "), "|", len(sc.polyOf(i)))
			if j, ok := same[key]; ok {
				refs[i] = &lineRef{sameAs: j + 1}
				continue
			}
			same[key] = i
			wg.Add(1)
			sem <- struct{}{}
			go func(i int) {
				defer wg.Done()
				defer func() { <-sem }()
				refs[i] = freshReference(env, root, sc.lineArgs(i), outIDOf(sc, i))
			}(i)
		}
		wg.Wait()
		for i := range refs {
			if refs[i] != nil && refs[i].sameAs > 0 {
				src := refs[refs[i].sameAs-1]
				if src == nil {
					refs[i] = nil
					continue
				}
				cp := *src
				cp.files = renameFiles(src.files, outIDOf(sc, refs[i].sameAs-1), outIDOf(sc, i), sc.polyOf(refs[i].sameAs-1), sc.polyOf(i))
				refs[i] = &cp
			}
		}
	}
	for i := range sc.Lines {
		if refs[i] == nil {
			refs[i] = soloReference(sc, env, root, i)
		}
		if refs[i].died && refs[i].err == "the run did not terminate" {
			if sc.Prop == "C11" && refs[i].hangKnown {
				res.Violations = append(res.Violations, Violation{Prop: "C11", Oracle: "termination", Class: "run-does-not-terminate@" + refs[i].hang, Detail: fmt.Sprintf("line %q run alone was still executing model code (%s) after %d s; it normally needs well under a second", sc.lineText(i), refs[i].hang, envInt("VERIF_REF_TIMEOUT_S", 40)), Line: fmt.Sprint(i)})
				res.Status = "violation"
			} else {
				res.Status, res.Note = "crash", "reference run of line "+fmt.Sprint(i)+" did not terminate"
			}
			res.WallMS = nowMS(t0)
			return res
		}
		if refs[i].crashed == "run returned without a result" && (sc.Prop == "C11" || sc.Prop == "C03") {
			// the run function came back but never delivered a result: a dispatcher would wait for it forever
			res.Violations = append(res.Violations, Violation{Prop: sc.Prop, Oracle: "termination", Class: "run-ends-without-delivering-a-result", Detail: fmt.Sprintf("line %q run alone returned without sending its result (neither success nor an error of its own)", sc.lineText(i)), Line: fmt.Sprint(i)})
			res.Status = "violation"
			res.WallMS = nowMS(t0)
			return res
		}
		if where, model := panicOrigin(refs[i].crashed); refs[i].crashed != "" && model && (sc.Prop == "C11" || sc.Prop == "C03") {
			// the line run alone panics inside the model: it neither succeeds nor fails with an error of its own (in a batch the
			// panic would take the whole session with it)
			file := where
			if k := strings.LastIndexByte(file, ':'); k > 0 {
				file = file[:k]
			}
			res.Violations = append(res.Violations, Violation{Prop: sc.Prop, Oracle: "termination", Class: "run-panics@" + file, Detail: fmt.Sprintf("line %q run alone panics inside the model (%s): %s", sc.lineText(i), where, firstLine(refs[i].crashed)), Line: fmt.Sprint(i)})
			res.Status = "violation"
			res.WallMS = nowMS(t0)
			return res
		}
		if refs[i].crashed != "" {
			res.Status, res.Note = "crash", "reference run of line "+fmt.Sprint(i)+" panicked: "+shortPanic(refs[i].crashed)
			res.WallMS = nowMS(t0)
			return res
		}
		res.add("reference.runs", 1)
		// C11: a line designed to fail must fail alone with an error of its class
		if sc.Lines[i].Bad != "" {
			if refs[i].success {
				res.Violations = append(res.Violations, Violation{Prop: sc.Prop, Oracle: "reported-error", Class: "bad-line-succeeds:" + sc.Lines[i].Bad, Detail: fmt.Sprintf("line %q is of the reported-error class %s but runs to completion without an error", sc.lineText(i), sc.Lines[i].Bad), Line: fmt.Sprint(i)})
			} else if c := errorClassOf(refs[i].err); c != sc.Lines[i].Bad {
				res.add("bad.otherclass", 1)
			}
			res.add("fault.bad-line."+sc.Lines[i].Bad, 1)
		} else if !refs[i].success {
			res.add("good.line.fails", 1)
			res.add("good.line.fails."+errorClassOf(refs[i].err), 1)
			if os.Getenv("VERIF_DEBUG_BATCH") != "" {
				fmt.Fprintf(os.Stderr, "DEBUG good line fails: %s: %s\n", sc.lineText(i), refs[i].err)
			}
		}
	}
	mode := sc.Params["mode"]
	if mode == "" {
		mode = "serial"
	}
	res.add("mode."+mode, 1)
	order := identityOrder(len(sc.Lines))
	writeLog := sc.Params["log"] != "0"
	var allV []batchViol
	hashes := ""
	run := func(order []int, spec *SchedSpec, disk *SimDisk, abortAt int) *BatchOutcome {
		out := env.RunBatch(root, batchLinesText(sc, order, false), spec, disk, writeLog, 0, -1, abortAt)
		hashes += out.TraceHash
		res.Digest += fmt.Sprintf("%s:%d:%s;", out.TraceHash, len(out.Decisions), disk.Digest())
		res.add("batches", 1)
		return out
	}
	switch mode {
	case "serial", "overlap":
		disk := NewSimDisk()
		out := run(order, sc.Sched, disk, 0)
		allV = append(allV, checkBatchOutcome(sc, order, refs, out, res, false)...)
		if sc.Params["record"] != "" && os.Getenv("VERIF_EMIT_DECISIONS") != "" {
			res.Decisions = out.Decisions
		}
	case "permute":
		disk := NewSimDisk()
		out := run(order, sc.Sched, disk, 0)
		if sc.Params["record"] != "" && os.Getenv("VERIF_EMIT_DECISIONS") != "" {
			res.Decisions = out.Decisions
		}
		allV = append(allV, checkBatchOutcome(sc, order, refs, out, res, false)...)
		// second batch: permuted lines, other concurrency, other schedule
		r := NewRNG(sc.Sched.Sub).Sub("permute", 0)
		perm := identityOrder(len(sc.Lines))
		for i := len(perm) - 1; i > 0; i-- {
			j := r.Intn(i + 1)
			perm[i], perm[j] = perm[j], perm[i]
		}
		sp2 := *sc.Sched
		sp2.Decisions = nil
		sp2.Sub = r.U64()
		sp2.Concurrency = r.Range(1, 16)
		sp2.Policy = "random"
		out2 := run(perm, &sp2, NewSimDisk(), 0)
		for _, v := range checkBatchOutcome(sc, perm, refs, out2, res, false) {
			v.detail = "[permuted batch, concurrency " + fmt.Sprint(sp2.Concurrency) + "] " + v.detail
			allV = append(allV, v)
		}
		res.add("fault.permutation", 1)
	case "stale":
		// stale result files of an earlier session: garbage, longer than what the run will write
		disk := NewSimDisk()
		r := NewRNG(sc.Sched.Sub).Sub("stale", 0)
		for i := range sc.Lines {
			for name, data := range refs[i].files {
				if r.Bool(0.7) {
					junk := append(append([]byte{}, data...), []byte("STALE STALE STALE\r\n")...)
					if r.Bool(0.5) {
						junk = bytes.Repeat([]byte("old record;1;2;3\r\n"), 50+len(data)/10)
					}
					disk.Plant(resultPathOf(sc, root, i, name), junk)
					res.add("fault.stale-file", 1)
				}
			}
		}
		out := run(order, sc.Sched, disk, 0)
		allV = append(allV, checkBatchOutcome(sc, order, refs, out, res, false)...)
	case "crash":
		// 1. learn the length of the schedule, 2. crash at a seeded decision, 3. re-run over the surviving prefixes
		probe := run(order, sc.Sched, NewSimDisk(), 0)
		allV = append(allV, checkBatchOutcome(sc, order, refs, probe, res, false)...)
		r := NewRNG(sc.Sched.Sub).Sub("crash", 0)
		if n := len(probe.Decisions); n > 2 {
			at := r.Range(1, n-1)
			if sc.Params["crashat"] != "" {
				fmt.Sscan(sc.Params["crashat"], &at)
			}
			sp := *sc.Sched
			sp.Decisions = probe.Decisions
			sp.Policy = ""
			crashed := run(order, &sp, NewSimDisk(), at)
			res.add("fault.crash", 1)
			disk := NewSimDisk()
			for _, p := range crashed.Disk.Paths() {
				data := crashed.Disk.Get(p).Data
				keep := len(data)
				if keep > 0 && r.Bool(0.7) {
					keep = r.Intn(keep + 1) // any prefix may have reached the platter
				}
				disk.Plant(p, data[:keep])
				res.add("fault.torn-survivor", 1)
			}
			sp3 := *sc.Sched
			sp3.Sub = r.U64()
			out := run(order, &sp3, disk, 0)
			for _, v := range checkBatchOutcome(sc, order, refs, out, res, false) {
				v.detail = fmt.Sprintf("[re-run after a crash at decision %d] ", at) + v.detail
				allV = append(allV, v)
			}
		}
	case "diskfault":
		allV = append(allV, execDiskFault(sc, env, refs, order, run, res)...)
	case "realbin":
		allV = append(allV, execRealBinary(sc, env, root, refs, order, res)...)
	case "inputloss":
		allV = append(allV, execInputLoss(sc, env, root, refs, order, run, res)...)
	case "latefile":
		allV = append(allV, execLateFile(sc, env, root, refs, order, run, res)...)
	case "unreadable":
		allV = append(allV, execUnreadable(sc, env, root, refs, order, run, res)...)
	case "replaced":
		allV = append(allV, execReplaced(sc, env, root, refs, order, run, res)...)
	}
	seen := map[string]bool{}
	for _, v := range allV {
		k := v.oracle + "|" + v.class
		if seen[k] {
			continue
		}
		seen[k] = true
		res.Violations = append(res.Violations, Violation{Prop: sc.Prop, Oracle: v.oracle, Class: v.class, Detail: v.detail, Line: v.line})
	}
	if len(res.Violations) > 0 {
		res.Status = "violation"
	}
	res.Hash = hashes
	res.WallMS = nowMS(t0)
	return res
}

func resultPathOf(sc *Scenario, root string, i int, base string) string {
	w := sc.Worlds[sc.Lines[i].World]
	return root + "/project/" + w.Loc + "/RESULT/" + base
}

func batchNonTrivial(res *Result) bool {
	return res.Status != "invalid" && res.Status != "crash" && res.Stats["reach.interleaved"] > 0
}

func init() {
	register(&CheckDef{
		Prop: "C03", Level: "exploration",
		Gen: func(r *RNG, idx int, tier string) *Scenario {
			// a third of the overlap windows run batches with failing lines (error paths of several runs in true parallel)
			sc := genBatch(r, isRaceIdx(idx) && idx%3 == 0, 24)
			if sc.Params == nil {
				sc.Params = map[string]string{}
			}
			switch {
			case isRaceIdx(idx):
				sc.Params["mode"] = "overlap"
				sc.Sched.Race = true
				sc.Sched.Concurrency = r.Range(2, 16)
				// a window early (all runs at run.start) and some later ones
				sc.Sched.Overlap = []int{r.Intn(3), r.Range(3, 40), r.Range(40, 400)}
				sc.Sched.OverlapK = r.PickI([]int{0, 2, 3, 8})
				if idx%3 == 0 {
					// failing lines: as many runs as possible leave run.start together, so that their error paths overlap
					sc.Sched.Concurrency = min(16, len(sc.Lines))
					sc.Sched.Overlap = []int{0, 1, r.Range(3, 40)}
					sc.Sched.OverlapK = 0
				}
			default:
				sc.Params["mode"] = []string{"serial", "permute", "diskfault", "stale", "crash", "permute", "realbin"}[idx%7]
				if sc.Params["mode"] == "realbin" && r.Bool(0.5) {
					// stratum (real disk only): the same batch line literally twice, i.e. two runs of one session
					// writing the same result files, next to each other in the batch so that they are alive together
					j := r.Intn(len(sc.Lines))
					sc.Lines[j].OutTag = "T01"
					tw := sc.Lines[j]
					tw.Extra = append([]string{}, tw.Extra...)
					sc.Lines = append(sc.Lines[:j+1], append([]BatchLine{tw}, sc.Lines[j+1:]...)...)
					if sc.Sched.Concurrency < 2 {
						sc.Sched.Concurrency = r.Range(2, 6)
					}
					sc.Params["twins"] = "1"
				}
				if sc.Params["mode"] == "realbin" && r.Bool(0.5) {
					// stratum (real disk only): the simulator is started from another directory than the working directory and
					// every line names a relative result folder (resolved against the directory the process runs in)
					sc.Params["relres"] = "1"
					for i := range sc.Lines {
						sc.Lines[i].Extra = append(sc.Lines[i].Extra, "resultfolder=RES")
					}
				}
				if sc.Params["mode"] == "realbin" && r.Bool(0.3) {
					// stratum (real disk only): the session is killed while runs are writing and started again over what it left
					sc.Params["rbkill"] = "1"
				} else if sc.Params["mode"] == "realbin" && r.Bool(0.45) {
					// stratum (real disk only): one result file of one line sits on a full device
					sc.Params["devfull"] = "1"
				}
				if sc.Params["mode"] == "realbin" && sc.Params["twins"] == "" && len(sc.Lines) >= 2 && r.Bool(0.4) {
					// stratum (real disk only): the output id of one line is the tail of another line's output id
					// (polygon ids "L03" and "AL03" on the same plot): nothing that goes by file-name patterns may mix them up
					j := r.Intn(len(sc.Lines))
					k := (j + 1 + r.Intn(len(sc.Lines)-1)) % len(sc.Lines)
					sc.Lines[k].World = sc.Lines[j].World
					sc.Lines[k].Extra = append([]string{}, sc.Lines[j].Extra...)
					sc.Lines[k].OutTag = "A" + sc.polyOf(j)
					sc.Params["suffixids"] = "1"
				}
			}
			if r.Bool(0.3) {
				sc.Params["log"] = "0"
			}
			return sc
		},
		Exec:       execBatch,
		Quick:      180,
		Thorough:   8000,
		RaceFrac:   0.25,
		NonTrivial: batchNonTrivial,
		Chunk:      6,
		Rule:       "one batch scenario (1-4 generated projects, 2-24 lines, concurrency 1..16) per evaluation, executed by the real dispatcher inside a synctest bubble under a seeded scheduler; modes rotate over serial / permuted+other concurrency / write errors (sticky, transient, torn) on one line's result stream / stale files / crash and re-run over torn survivors / the shipped binary on the real disk over planted stale files (unscheduled, real Go scheduler) / overlap windows under the race detector; non-trivial = at least two runs were parked simultaneously (a real interleaving choice existed); distinct = distinct hash of the (task, point) decision sequence projected on pool and send events",
		ReachKeys:  []string{"reach.interleaved", "fault.permutation", "fault.stale-file", "fault.crash", "fault.overlap-window", "fault.write-error.scenarios", "reach.records-resumed-after-fault", "realbin.batches"},
		Assumptions: []string{
			"interleavings are sampled at hook granularity (run start, every pooled-file Get, result-file open/close/record end, log and result sends) plus windows of real parallel execution; not all Go-scheduler interleavings are enumerated",
			"the reference of every line is the same line executed alone in a fresh session on the same input files",
			"retained pool contents after session.Close are not inspected (unexported)",
		},
	})
	deathHandlers["C03"] = func(r *Result, stderr string, code int, timedOut bool) {
		if strings.Contains(stderr, "DATA RACE") || code == 66 {
			r.Status = "violation"
			r.Violations = append(r.Violations, Violation{Prop: "C03", Oracle: "race-detector", Class: "data-race", Detail: "race detector report: " + raceSummary(stderr)})
		} else if strings.Contains(stderr, "concurrent map") {
			r.Status = "violation"
			r.Violations = append(r.Violations, Violation{Prop: "C03", Oracle: "race-detector", Class: "concurrent-map-access", Detail: firstLine(stderr)})
		}
	}
}

func raceSummary(stderr string) string {
	var frames []string
	for _, l := range strings.Split(stderr, "\n") {
		l = strings.TrimSpace(l)
		if strings.Contains(l, "/hermes/") && strings.Contains(l, ".go:") {
			if k := strings.Index(l, "/hermes/"); k >= 0 {
				l = l[k+1:]
			}
			if sp := strings.IndexByte(l, ' '); sp > 0 {
				l = l[:sp]
			}
			frames = append(frames, l)
			if len(frames) >= 4 {
				break
			}
		}
	}
	return strings.Join(frames, " | ")
}

// stripLogIDs removes "[n]" tokens: error texts embed the log id of the run, which differs between the solo reference and the batch.
func stripLogIDs(s string) string {
	var b strings.Builder
	for i := 0; i < len(s); i++ {
		if s[i] == '[' {
			j := i + 1
			for j < len(s) && s[j] >= '0' && s[j] <= '9' {
				j++
			}
			if j > i+1 && j < len(s) && s[j] == ']' {
				i = j
				continue
			}
		}
		b.WriteByte(s[i])
	}
	return strings.TrimSpace(b.String())
}

// execRealBinary runs the batch through the shipped simulator binary (real main(), real dispatcher, real file
// writer, real Go scheduler) on the real disk, over stale result files of an earlier session that are longer than
// what the runs will write. Unscheduled: the oracles are the schedule-independent ones (every line byte-identical
// to its solo run, error summary). A violation found here is executed again; one that does not reproduce is
// counted, not reported.
func execRealBinary(sc *Scenario, env *Env, root string, refs []*lineRef, order []int, res *Result) []batchViol {
	bin := os.Getenv("VERIF_HERMES2GO")
	if bin == "" {
		bin = filepath.Join(verifRoot(), ".build", "hermes2go")
	}
	r := NewRNG(sc.Sched.Sub).Sub("realbin", 0)
	startDir := root
	resDir := func(i int) string { return filepath.Dir(resultPathOf(sc, root, i, "x")) }
	if sc.Params["relres"] != "" {
		startDir = filepath.Join(root, "startdir")
		os.MkdirAll(startDir, 0o755)
		resDir = func(i int) string { return filepath.Join(startDir, "RES") }
		res.add("realbin.started-elsewhere-with-relative-result-folder", 1)
	}
	if sc.Params["suffixids"] != "" {
		res.add("realbin.output-id-is-tail-of-another", 1)
	}
	bf := filepath.Join(root, "batch.txt")
	os.WriteFile(bf, []byte(strings.Join(batchLinesText(sc, order, false), "\n")+"\n"), 0o644)
	leftovers := map[string]string{} // planted files that are no result files of this session: ignored while untouched
	once := func() (*BatchOutcome, string) {
		// stale files
		for i := range sc.Lines {
			for name, data := range refs[i].files {
				if r.Bool(0.7) {
					p := filepath.Join(resDir(i), name)
					os.MkdirAll(filepath.Dir(p), 0o755)
					os.WriteFile(p, append(append([]byte{}, data...), []byte("STALE RECORD OF AN EARLIER SESSION\r\nSTALE\r\n")...), 0o644)
					res.add("fault.stale-file-real-disk", 1)
					if r.Bool(0.5) {
						// what a killed session may leave beside it: temporary siblings of the result file, longer than the result
						for _, suf := range []string{".part", ".tmp"} {
							junk := append(append([]byte{}, data...), bytes.Repeat([]byte("LEFT BY A KILLED SESSION\r\n"), 40)...)
							os.WriteFile(p+suf, junk, 0o644)
							leftovers[p+suf] = string(junk)
						}
					}
				}
			}
		}
		argv := []string{"-module", "batch", "-concurrent", fmt.Sprint(sc.Sched.Concurrency), "-workingdir", root, "-batch", bf}
		if sc.Params["log"] != "0" {
			argv = append(argv, "-logoutput")
		}
		if sc.Params["rbkill"] != "" {
			// first invocation: killed (SIGKILL) shortly after its first run has started; whatever it left stays on the disk
			av := append([]string{}, argv...)
			if sc.Params["log"] == "0" {
				av = append(av, "-logoutput")
			}
			first := exec.Command(bin, av...)
			first.Dir = startDir
			delay := time.Duration(r.Intn(40)) * time.Millisecond
			runChild(first, 5*time.Minute, func(c *exec.Cmd) bool { time.Sleep(delay); c.Process.Kill(); return true })
			res.add("fault.session-killed-and-started-again-on-the-real-disk", 1)
		}
		fullLine, fullFile := -1, ""
		if sc.Params["devfull"] != "" {
			var cands []int
			for i := range sc.Lines {
				if refs[i].success {
					cands = append(cands, i)
				}
			}
			if len(cands) > 0 {
				fullLine = cands[r.Intn(len(cands))]
				var names []string
				for n, d := range refs[fullLine].files {
					if (n[0] == 'Y' || n[0] == 'C') && len(d) > 0 && !strings.HasSuffix(n, ".yml") {
						names = append(names, n)
					}
				}
				sort.Strings(names)
				if len(names) > 0 {
					fullFile = names[r.Intn(len(names))]
					p := filepath.Join(resDir(fullLine), fullFile)
					os.MkdirAll(filepath.Dir(p), 0o755)
					os.Remove(p)
					os.Symlink("/dev/full", p)
					res.add("fault.result-file-on-a-full-device", 1)
				} else {
					fullLine = -1
				}
			}
		}
		cmd := exec.Command(bin, argv...)
		cmd.Dir = startDir
		outS, err := runChild(cmd, 5*time.Minute, nil)
		outB := []byte(outS)
		if fullLine >= 0 {
			os.Remove(filepath.Join(resDir(fullLine), fullFile))
			// the program may give up loudly (the shipped code ends the process when the final flush fails) or fail that
			// line; it must not report the line as a success
			if err != nil {
				res.add("reach.full-device-ended-the-session", 1)
				return &BatchOutcome{Disk: NewSimDisk(), Stdout: ""}, "\x00gave-up"
			}
			rep := parseDispatcher(string(outB))
			listed := false
			for pos, li := range order {
				if li != fullLine {
					continue
				}
				for _, el := range rep.ErrorLines {
					listed = listed || strings.HasPrefix(el, fmt.Sprintf("[%d] ", pos)) || el == fmt.Sprintf("[%d]", pos)
				}
			}
			if !listed {
				return &BatchOutcome{Disk: NewSimDisk(), Stdout: string(outB)}, "\x00swallowed:" + fullFile
			}
		}
		disk := NewSimDisk()
		dirs := map[string]bool{}
		for i := range sc.Lines {
			dirs[resDir(i)] = true
		}
		for _, w := range sc.Worlds {
			dirs[filepath.Join(root, "project", w.Loc, "RESULT")] = true
		}
		var dl []string
		for d := range dirs {
			dl = append(dl, d)
		}
		sort.Strings(dl)
		for _, dir := range dl {
			ents, _ := os.ReadDir(dir)
			for _, e := range ents {
				if b, rerr := os.ReadFile(filepath.Join(dir, e.Name())); rerr == nil {
					if junk, ok := leftovers[filepath.Join(dir, e.Name())]; ok && junk == string(b) {
						continue // an untouched leftover of the earlier session
					}
					disk.Plant(dir+"/"+e.Name(), b)
				}
			}
		}
		if sc.Params["relres"] != "" {
			// nothing may land below the working directory's own copy of the relative folder
			if ents, _ := os.ReadDir(filepath.Join(root, "RES")); len(ents) > 0 {
				disk.Plant(root+"/RES/"+ents[0].Name()+".MISPLACED", []byte("x"))
			}
		}
		msg := ""
		if err != nil {
			msg = fmt.Sprintf("hermes2go %s: %v: %s", strings.Join(argv, " "), err, firstLine(lastNonEmpty(string(outB))))
		}
		return &BatchOutcome{Disk: disk, Stdout: string(outB), RealDisk: true}, msg
	}
	judge := func() []batchViol {
		out, msg := once()
		if msg == "\x00gave-up" {
			return nil
		}
		if strings.HasPrefix(msg, "\x00swallowed:") {
			return []batchViol{{"real-binary", "write-error-swallowed", fmt.Sprintf("result file %s of one line sat on a full device (every write to it fails at the latest when it is flushed); the session ended with status 0 and does not list the line as failed", msg[len("\x00swallowed:"):]), ""}}
		}
		if msg != "" {
			return []batchViol{{"real-binary", "simulator-binary-failed", msg, ""}}
		}
		scratch := &Result{}
		return checkBatchOutcome(sc, order, refs, out, scratch, false)
	}
	res.add("realbin.batches", 1)
	if sc.Params["twins"] != "" {
		res.add("realbin.literal-twin-lines", 1)
	}
	vs := judge()
	if len(vs) == 0 {
		return nil
	}
	// confirm: the same batch once more (fresh stale files); only what shows again is reported
	again := judge()
	var kept []batchViol
	for _, v := range vs {
		for _, w := range again {
			if v.oracle == w.oracle && v.class == w.class {
				v.detail = "[shipped binary on the real disk, -concurrent " + fmt.Sprint(sc.Sched.Concurrency) + "] " + v.detail
				kept = append(kept, v)
				break
			}
		}
	}
	if len(kept) < len(vs) {
		res.add("realbin.violations-not-reproduced", float64(len(vs)-len(kept)))
	}
	return kept
}
