package main

// Parsing of result streams recorded on the simulated disk (the public
// observation channel): header line(s) + records, CSV or fixed width.

import (
	"strconv"
	"strings"
)

type Stream struct {
	Path    string
	Header  []string
	Recs    [][]string
	RawRecs []string
	Torn    bool // last record not terminated by a line break
}

// findStream returns the file whose base name starts with prefix+outID.
func findStream(d *SimDisk, prefix, outID string) *SimFile {
	for _, p := range d.Paths() {
		base := p[strings.LastIndexByte(p, '/')+1:]
		if strings.HasPrefix(base, prefix+outID+".") {
			return d.Get(p)
		}
	}
	return nil
}

// parseStream splits a result stream into header and records. headLines is the
// number of header lines the output configuration defines.
func parseStream(f *SimFile, csv bool, headLines int) *Stream {
	s := &Stream{}
	if f == nil {
		return s
	}
	s.Path = f.Path
	text := string(f.Data)
	if len(text) > 0 && !strings.HasSuffix(text, "\n") {
		s.Torn = true
	}
	lines := strings.Split(text, "\n")
	if len(lines) > 0 && lines[len(lines)-1] == "" {
		lines = lines[:len(lines)-1]
	}
	for i, l := range lines {
		l = strings.TrimRight(l, "\r")
		var fs []string
		if csv {
			fs = strings.Split(l, ",")
			for k := range fs {
				fs[k] = strings.TrimSpace(fs[k])
			}
		} else {
			fs = strings.Fields(l)
		}
		if i < headLines {
			if i == 0 {
				s.Header = fs
			}
			continue
		}
		s.Recs = append(s.Recs, fs)
		s.RawRecs = append(s.RawRecs, l)
	}
	return s
}

func (s *Stream) col(name string) int {
	for i, h := range s.Header {
		if h == name {
			return i
		}
	}
	return -1
}

func atof(s string) (float64, bool) {
	v, err := strconv.ParseFloat(strings.TrimSpace(s), 64)
	return v, err == nil
}

func atoi(s string) (int, bool) {
	v, err := strconv.Atoi(strings.TrimSpace(s))
	return v, err == nil
}

// outIDWorld is the output id of a single-run scenario (poligonID + plotNr).
func outIDWorld(w *World) string { return w.Poly + w.Plot }
