//go:build nodispatch

package main

import "github.com/zalf-rpm/Hermes2Go/hermes"

const dispatcherAvailable = false

func callDispatcher(session *hermes.HermesSession, root string, startLine, endLine int, writeLog bool, lines []string) {
	panic("the simulator was built without access to the batch dispatcher (its signature in the tree differs from the one the harness calls)")
}
