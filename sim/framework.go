package main

// Scenario, result and check registry; single-run executor.

import (
	"encoding/json"
	"fmt"
	"io"
	"log"
	"os"
	"path/filepath"
	"runtime/debug"
	"sort"
	"strings"
	"time"

	"github.com/zalf-rpm/Hermes2Go/hermes"
)

// Violation is one violated oracle observation.
type Violation struct {
	Prop    string             `json:"prop"`
	Oracle  string             `json:"oracle"`           // oracle id, e.g. "substep-balance"
	Class   string             `json:"class"`            // stable signature of the violation kind
	Day     string             `json:"day,omitempty"`    // simulated date (ISO) of the first observation
	Detail  string             `json:"detail"`
	Values  map[string]float64 `json:"values,omitempty"`
	Line    string             `json:"line,omitempty"`   // batch line / log id where applicable
}

type BuggifySpec struct {
	Rate float64     `json:"rate"`           // share of days whose sub-step count is multiplied
	Sub  uint64      `json:"sub"`            // sub-seed deciding which days
	MaxK int         `json:"maxk"`           // multipliers 2..MaxK
	Days map[Day]int `json:"days,omitempty"` // explicit multipliers (minimised scenarios)
	Off  bool        `json:"off,omitempty"`
}

func (b *BuggifySpec) K(zeit int) int {
	if b == nil || b.Off {
		return 1
	}
	if k, ok := b.Days[Day(zeit)]; ok {
		return k
	}
	if b.Rate <= 0 || b.MaxK < 2 {
		return 1
	}
	r := NewRNG(b.Sub).Sub("bug", uint64(zeit))
	if r.F() < b.Rate {
		return r.Range(2, b.MaxK)
	}
	return 1
}

// Fault is one injected fault (positions in simulated time or decision index).
type Fault struct {
	Kind string  `json:"kind"`
	Day  Day     `json:"day,omitempty"`
	N    int     `json:"n,omitempty"`
	S    string  `json:"s,omitempty"`
	F    float64 `json:"f,omitempty"`
}

// BatchLine is one line of a batch scenario.
type BatchLine struct {
	World int      `json:"world"`          // index into Worlds
	Extra []string `json:"extra,omitempty"` // additional key=value arguments
	Bad   string   `json:"bad,omitempty"`   // expected reported-error class ("" = valid line)
	Ref   int      `json:"ref,omitempty"`   // C18: index of the line this one must equal (+1), 0 = none
	Drop  []string `json:"drop,omitempty"`  // keys removed from the generated argument list (a line without project= or plotNr=)
	OutTag string  `json:"outtag,omitempty"` // explicit polygon id (two lines with the same tag are the same batch line literally: same result files)
}

type SchedSpec struct {
	Concurrency int     `json:"concurrency"`
	Sub         uint64  `json:"sub"`                 // sub-seed for decisions beyond the explicit list
	Decisions   []int   `json:"decisions,omitempty"` // explicit choices (index into the sorted parked set)
	Policy      string  `json:"policy"`              // random | fifo | lifo | starve | burst
	RecordP     float64 `json:"recordp"`             // probability that a completed output record is a yield point
	OpP         float64 `json:"opp,omitempty"`       // probability that a write inside a record (one field, one fill character) is a yield point
	Overlap     []int   `json:"overlap,omitempty"`   // decision indices at which k>=2 runs are released together
	OverlapK    int     `json:"overlapk,omitempty"`
	Race        bool    `json:"race,omitempty"`      // needs the -race worker
	NoPoolYield bool    `json:"nopoolyield,omitempty"` // coarse granularity: runs do not park at pooled-file Gets (a caller may hold a lock there)
}

// Scenario is the unit of execution and the replay file.
type Scenario struct {
	Prop    string            `json:"prop"`
	Kind    string            `json:"kind"`
	Seed    uint64            `json:"seed"`
	Idx     int               `json:"idx"`
	World   *World            `json:"world,omitempty"`
	Worlds  []*World          `json:"worlds,omitempty"`
	Lines   []BatchLine       `json:"lines,omitempty"`
	Bug     *BuggifySpec      `json:"bug,omitempty"`
	Sched   *SchedSpec        `json:"sched,omitempty"`
	Faults  []Fault           `json:"faults,omitempty"`
	Params  map[string]string `json:"params,omitempty"`
	Grid    bool              `json:"grid,omitempty"`
	Expect  *Violation        `json:"expect,omitempty"` // replay files: the violation to reproduce
}

func (s *Scenario) JSON() []byte {
	b, _ := json.MarshalIndent(s, "", " ")
	return b
}

// Result of one scenario.
type Result struct {
	Idx        int                `json:"idx"`
	Status     string             `json:"status"` // ok | violation | invalid | crash
	Note       string             `json:"note,omitempty"`
	Violations []Violation        `json:"violations,omitempty"`
	Stats      map[string]float64 `json:"stats,omitempty"`
	Hash       string             `json:"hash,omitempty"`
	Digest     string             `json:"digest,omitempty"` // hash of everything observed (streams, decisions): compared by the determinism self-test
	Sample     json.RawMessage    `json:"sample,omitempty"`
	WallMS     float64            `json:"wall_ms"`
	Decisions  []int              `json:"decisions,omitempty"` // first batch's decision sequence (only when VERIF_EMIT_DECISIONS is set)
	Harness    string             `json:"harness,omitempty"` // a defect of the harness itself (stub disagrees with the real component): exit 2, never a violation
}

func (r *Result) add(k string, v float64) {
	if r.Stats == nil {
		r.Stats = map[string]float64{}
	}
	r.Stats[k] += v
}

// CheckDef describes how one property is explored.
type CheckDef struct {
	Prop     string
	Level    string
	Gen      func(r *RNG, idx int, tier string) *Scenario
	Exec     func(sc *Scenario, env *Env) *Result
	Quick    int // scenarios per tier
	Thorough int
	// Trivial reports whether a result counts as trivial for distinct_nontrivial.
	NonTrivial func(res *Result) bool
	Rule       string
	ReachKeys  []string // stats that must be > 0 in the thorough tier (self-test, exit 2)
	Assumptions []string
	NeedsRace  bool
	RaceFrac   float64 // share of scenario indices (the last ones) executed by the -race worker
	Chunk      int
	TimeoutS   int // chunk watchdog (seconds), 0 = default
	MaxBadShare float64 // tolerated share of crash+invalid scenarios (default 0.10); above it the check exits 2
}

var checks = map[string]*CheckDef{}

func register(c *CheckDef) { checks[c.Prop] = c }

// Env is the per-process execution environment.
type Env struct {
	Scratch  string // private scratch directory of this process
	ParamDir string
	Repo     string
	Tables   *ParamTables
	devnull  *os.File
	seq      int
}

func NewEnv() (*Env, error) {
	repo := os.Getenv("REPO_ROOT")
	if repo == "" {
		repo = "/repo"
	}
	e := &Env{Repo: repo, ParamDir: filepath.Join(repo, "examples", "parameter")}
	base := os.Getenv("VERIF_SCRATCH")
	if base == "" {
		base = os.TempDir()
	}
	d, err := os.MkdirTemp(base, "vsim-")
	if err != nil {
		return nil, err
	}
	e.Scratch = d
	pt, err := LoadParamTables(e.ParamDir)
	if err != nil {
		return nil, err
	}
	e.Tables = pt
	e.devnull, _ = os.OpenFile(os.DevNull, os.O_WRONLY, 0)
	return e, nil
}

func (e *Env) Close() {
	if os.Getenv("VERIF_KEEP_SCRATCH") == "" { // debugging aid: keep the materialised projects
		os.RemoveAll(e.Scratch)
	}
}

// NewRoot creates a fresh working directory for one scenario.
func (e *Env) NewRoot() string {
	e.seq++
	d := filepath.Join(e.Scratch, fmt.Sprintf("s%05d", e.seq))
	os.MkdirAll(d, 0o755)
	return d
}

// RunOutcome of one session.Run call.
type RunOutcome struct {
	Success bool
	Err     string
	Logs    []string
	Panic   string
	Disk    *SimDisk
	Stdout  string
}

// quiet redirects the process's stdout and the log package while f runs.
func (e *Env) quiet(capture bool, f func()) string {
	oldOut := os.Stdout
	var tmp *os.File
	if capture {
		tmp, _ = os.CreateTemp(e.Scratch, "stdout-")
		os.Stdout = tmp
	} else {
		os.Stdout = e.devnull
	}
	if os.Getenv("VERIF_SHOW_LOG") == "" {
		log.SetOutput(io.Discard)
	}
	defer func() {
		os.Stdout = oldOut
	}()
	f()
	if tmp != nil {
		tmp.Close()
		b, _ := os.ReadFile(tmp.Name())
		os.Remove(tmp.Name())
		return string(b)
	}
	return ""
}

// RunSingle executes one run in this process with the given hooks installed.
// Output goes to a simulated disk unless realDisk is set.
func (e *Env) RunSingle(root string, args []string, hooks *hermes.VerifHooks, disk *SimDisk) *RunOutcome {
	out := &RunOutcome{Disk: disk}
	session := hermes.NewHermesSession()
	if disk != nil {
		session.HermesOutWriter = disk.Generator()
	}
	hermes.Verif = hooks
	defer func() { hermes.Verif = nil }()
	resCh := make(chan *hermes.RunReturn, 1)
	logCh := make(chan string)
	done := make(chan struct{})
	logsDone := make(chan struct{})
	go func() {
		defer close(logsDone)
		for l := range logCh {
			if len(out.Logs) < 1000 {
				out.Logs = append(out.Logs, l)
			}
		}
	}()
	e.quiet(false, func() {
		go func() {
			defer close(done)
			defer func() {
				if r := recover(); r != nil {
					out.Panic = fmt.Sprintf("%v\n%s", r, debug.Stack())
				}
			}()
			session.Run(root, args, "[0]", resCh, logCh)
		}()
		<-done
	})
	session.Close()
	close(logCh)
	<-logsDone
	select {
	case r := <-resCh:
		out.Success = r.Success
		if r.Err != nil {
			out.Err = r.Err.Error()
		}
	default:
		if out.Panic == "" {
			out.Panic = "run returned without a result"
		}
	}
	return out
}

func sortedKeys(m map[string]float64) []string {
	ks := make([]string, 0, len(m))
	for k := range m {
		ks = append(ks, k)
	}
	sort.Strings(ks)
	return ks
}

func shortPanic(s string) string {
	lines := strings.Split(s, "\n")
	out := lines[0]
	for _, l := range lines {
		if strings.Contains(l, "/hermes/") && strings.Contains(l, ".go:") {
			out += " @ " + strings.TrimSpace(l)
			break
		}
	}
	return out
}

// panicOrigin inspects a recovered panic's stack: the first frame after the
// runtime's panic frames tells whether model code (package hermes) or harness
// code (overlaid zz_verif_ files) faulted.
func panicOrigin(stack string) (where string, model bool) {
	lines := strings.Split(stack, "\n")
	seenPanic := false
	for i, l := range lines {
		if strings.HasPrefix(l, "panic(") {
			seenPanic = true
			continue
		}
		if !seenPanic {
			continue
		}
		t := strings.TrimSpace(l)
		if !strings.Contains(t, ".go:") || strings.Contains(t, "/runtime/") {
			continue
		}
		_ = i
		if sp := strings.IndexByte(t, ' '); sp > 0 {
			t = t[:sp]
		}
		if strings.Contains(t, "zz_verif_") {
			return t, false
		}
		if k := strings.Index(t, "/hermes/"); k >= 0 && !strings.Contains(t, "/src/hermes2go/") {
			return t[k+1:], true
		}
		return t, false
	}
	return "", false
}

func nowMS(t0 time.Time) float64 { return float64(time.Since(t0).Microseconds()) / 1000 }

// genTotal is the number of scenarios of the current tier (needed to place the race stratum).
var genTotal = 0
var genRaceFrac = 0.0

func raceFrom(total int, frac float64) int {
	if frac <= 0 {
		return total
	}
	return total - int(float64(total)*frac)
}

func isRaceIdx(idx int) bool { return genTotal > 0 && idx >= raceFrom(genTotal, genRaceFrac) }
