package main

// C10 — scheduled management actions take effect exactly once, on time, in full.
// History check over the management event stream plus state jumps from probes.

import (
	"fmt"
	"math"
	"sort"
	"strings"

	"github.com/zalf-rpm/Hermes2Go/hermes"
)

type mgmtEvent struct {
	day   Day
	kind  string
	attrs map[string]string
	raw   string
}

func parseMgmt(f *SimFile, df string, cent int) ([]mgmtEvent, error) {
	var evs []mgmtEvent
	if f == nil {
		return nil, nil
	}
	for _, l := range strings.Split(string(f.Data), "\n") {
		l = strings.TrimRight(l, "\r ")
		if l == "" {
			continue
		}
		t := strings.Fields(l)
		if len(t) < 2 {
			return evs, fmt.Errorf("short management line %q", l)
		}
		d, err := ParseOutDate(t[0], df, cent)
		if err != nil {
			return evs, err
		}
		ev := mgmtEvent{day: d, kind: t[1], attrs: map[string]string{}, raw: l}
		for i := 2; i < len(t); i++ {
			if strings.HasSuffix(t[i], ":") {
				val := ""
				if i+1 < len(t) && !strings.HasSuffix(t[i+1], ":") {
					val = t[i+1]
					i++
				}
				ev.attrs[strings.TrimSuffix(t[i-boolInt(val != "")], ":")] = val
			}
		}
		evs = append(evs, ev)
	}
	return evs, nil
}

type dayJump struct {
	dDSUMM, dNH4, dFast0, dSlow0 float64
	irr                          float64
	harvest, tillage             bool
}

type c10Oracle struct {
	obase
	w     *World
	jumps map[int]*dayJump
	pre   struct{ dsumm, nh4, fast0, slow0 float64 }
	ntil  int
	akf   int
}

func (o *c10Oracle) j(zeit int) *dayJump {
	if o.jumps[zeit] == nil {
		o.jumps[zeit] = &dayJump{}
	}
	return o.jumps[zeit]
}

func (o *c10Oracle) Probe(pt string, zeit, subd int, wdt float64, g *G, w *hermes.WaterSharedVars, n *hermes.NitroSharedVars, c *hermes.CropSharedVars) {
	switch pt {
	case "evatra":
		if g.EffectiveIRRIG != 0 {
			o.j(zeit).irr = g.EffectiveIRRIG
		}
	case "nitro.pre":
		if subd == 1 {
			o.pre.dsumm, o.pre.nh4 = g.DSUMM, g.NH4Sum
			o.pre.fast0 = g.NFOS[0] + g.MINFOS[0]
			o.pre.slow0 = g.NAOS[0] + g.MINAOS[0]
			o.ntil, o.akf = g.NTIL.Index, g.AKF.Index
		}
	case "nitro.post":
		if subd == 1 {
			dj := dayJump{dDSUMM: g.DSUMM - o.pre.dsumm, dNH4: g.NH4Sum - o.pre.nh4, dFast0: g.NFOS[0] + g.MINFOS[0] - o.pre.fast0, dSlow0: g.NAOS[0] + g.MINAOS[0] - o.pre.slow0}
			dj.tillage = g.NTIL.Index != o.ntil
			dj.harvest = g.AKF.Index != o.akf
			if dj.dDSUMM != 0 || dj.dNH4 != 0 || math.Abs(dj.dFast0) > 1e-9 || math.Abs(dj.dSlow0) > 1e-9 || dj.tillage || dj.harvest {
				x := o.j(zeit)
				irr := x.irr
				*x = dj
				x.irr = irr
			}
		}
	}
}

// matchSchedule checks that executed[i] happens on or (slack) one day after scheduled[i]; an action whose window is
// already taken by its predecessor (same-day pair, dense schedules) follows the predecessor on the next day.
// scheduled holds every action dated inside the period; trailing ones may legitimately fall behind the end date.
func (o *c10Oracle) matchSchedule(kind string, scheduled []Day, executed []Day, slack int, prevExec Day) {
	o.matchScheduleSilent(kind, scheduled, nil, executed, slack, prevExec)
}

// matchScheduleSilent: silent[i] marks a scheduled action that leaves no entry in the event log (a tillage of depth 0:
// nothing to mix). It still takes its turn in the schedule; the day on which it was "carried out" is unknown within
// its window, so the action behind it is accepted anywhere between its own date and the day after that window.
func (o *c10Oracle) matchScheduleSilent(kind string, scheduled []Day, silent []bool, executed []Day, slack int, prevExec Day) {
	end := o.w.Cfg.End
	nLoud := 0
	for i := range scheduled {
		if silent == nil || !silent[i] {
			nLoud++
		}
	}
	if len(executed) > nLoud {
		o.violate("exactly-once", "action-executed-more-than-scheduled:"+kind, 0, fmt.Sprintf("%d %s actions scheduled inside the period %v, %d executed %v", nLoud, kind, isoList(scheduled), len(executed), isoList(executed)), nil)
		return
	}
	k := 0 // next executed entry
	fuzzy := false
	for i := range scheduled {
		s := scheduled[i]
		lo, hi := s, s+Day(slack)
		if prevExec >= lo {
			if fuzzy {
				hi = prevExec + 1
				if hi < s+Day(slack) {
					hi = s + Day(slack)
				}
			} else {
				lo, hi = prevExec+1, prevExec+1
				if lo < s {
					lo, hi = s, s+Day(slack)
				}
			}
			if k < len(executed) {
				o.hit("reach.same-day-pair")
			}
		}
		if silent != nil && silent[i] {
			prevExec, fuzzy = hi, true
			o.hit("reach.silent-action")
			continue
		}
		if k >= len(executed) {
			// not carried out: only acceptable when its latest allowed day lies behind the end date
			if hi <= end {
				o.violate("exactly-once", "action-missing:"+kind, int(s), fmt.Sprintf("%s action %d scheduled for %s was never carried out (%d scheduled inside the period, %d executed: %v)", kind, i+1, s.ISO(), nLoud, len(executed), isoList(executed)), nil)
				return
			}
			prevExec = hi
			continue
		}
		e := executed[k]
		k++
		if e < lo || e > hi {
			cls := "action-late:" + kind
			if e < s {
				cls = "action-before-scheduled-date:" + kind
			}
			o.violate("on-time", cls, int(e), fmt.Sprintf("%s action %d scheduled for %s was carried out on %s (allowed %s..%s)", kind, i+1, s.ISO(), e.ISO(), lo.ISO(), hi.ISO()), nil)
			return
		}
		prevExec, fuzzy = e, false
	}
}

func (o *c10Oracle) Finish(out *RunOutcome, res *Result) {
	defer o.flush(res)
	if out == nil || !out.Success {
		return
	}
	w := o.w
	start, end := w.Start(), w.Cfg.End
	evs, err := parseMgmt(findMgmt(out.Disk, outIDWorld(w)), w.Cfg.DateFormat, w.Cfg.DivideCentury)
	if err != nil {
		o.violate("event-log", "unparsable-management-log", 0, err.Error(), nil)
		return
	}
	by := map[string][]mgmtEvent{}
	last := Day(0)
	for _, e := range evs {
		by[e.kind] = append(by[e.kind], e)
		if e.day < last {
			o.violate("event-log", "management-log-out-of-order", int(e.day), "management event dated "+e.day.ISO()+" follows one dated "+last.ISO(), nil)
		}
		last = e.day
	}
	days := func(es []mgmtEvent) []Day {
		var ds []Day
		for _, e := range es {
			ds = append(ds, e.day)
		}
		return ds
	}
	// ---- fertilisation (the first event is the residue input of the preceding crop, booked on the day after the start)
	var fsched []Day
	var fev []FertEvent
	for _, f := range w.Fert {
		if f.Day >= start && f.Day <= end {
			fsched = append(fsched, f.Day)
			fev = append(fev, f)
		} else if f.Day < start {
			o.hit("reach.pre-start-action")
		} else {
			o.hit("reach.post-end-action")
		}
	}
	fexec := by["fertilization"]
	if len(fexec) > 0 && fexec[0].day == start+1 && strings.TrimSpace(fexec[0].attrs["Fertilizer"]) == "" {
		fexec = fexec[1:] // residue booking of the preceding crop (no fertiliser name)
	}
	o.matchScheduleResidueAware(fsched, days(fexec), start)
	if len(fexec) <= len(fev) {
		for i, e := range fexec {
			f := fev[i]
			if strings.TrimSpace(e.attrs["Fertilizer"]) != f.Type {
				o.violate("in-full", "fertiliser-type-differs", int(e.day), fmt.Sprintf("fertilisation %d scheduled with %s, logged as %q", i+1, f.Type, e.attrs["Fertilizer"]), nil)
			}
			o.checkFertAmounts(i, f, e.day)
		}
	}
	// ---- tillage
	var tsched []Day
	var tsilent []bool
	for _, t := range w.Till {
		if t.Day >= start && t.Day <= end {
			tsched = append(tsched, t.Day)
			tsilent = append(tsilent, t.Depth == 0)
		} else if t.Day < start {
			o.hit("reach.pre-start-action")
		}
	}
	o.matchScheduleSilent("tillage", tsched, tsilent, days(by["tillage"]), 1, 0)
	if len(by["tillage"]) <= len(tsched) {
		k := 0
		for _, t := range w.Till {
			if t.Depth == 0 {
				continue
			}
			if t.Day >= start && t.Day <= end && k < len(by["tillage"]) {
				e := by["tillage"][k]
				k++
				if e.attrs["Depth"] != fmt.Sprintf("%dcm", t.Depth) || e.attrs["Type"] != fmt.Sprint(t.Type) {
					o.violate("in-full", "tillage-depth-or-type-differs", int(e.day), fmt.Sprintf("tillage scheduled with depth %d cm type %d, logged as %s", t.Depth, t.Type, e.raw), nil)
				}
			}
		}
	}
	// ---- irrigation
	var isched []Day
	var iev []IrrEvent
	if w.IrrOn {
		for _, f := range w.Irr {
			if f.Day >= start && f.Day <= end {
				isched = append(isched, f.Day)
				iev = append(iev, f)
			} else if f.Day < start {
				o.hit("reach.pre-start-action")
			}
		}
	}
	o.matchSchedule("irrigation", isched, days(by["irrigation"]), 0, 0)
	want := map[int]float64{}
	for _, f := range iev {
		want[int(f.Day)] = float64(f.MM) / 10
	}
	var jd []int
	for d := range o.jumps {
		jd = append(jd, d)
	}
	sort.Ints(jd)
	for _, d := range jd {
		j := o.jumps[d]
		if j.irr != 0 || want[d] != 0 {
			if math.Abs(j.irr-want[d]) > 1e-12 {
				o.violate("in-full", "irrigation-amount-differs", d, fmt.Sprintf("on %s %.6g cm irrigation water entered the surface input, the schedule gives %.6g cm", Day(d).ISO(), j.irr, want[d]), nil)
				break
			}
			delete(want, d)
		}
	}
	for d := range want {
		if want[d] != 0 {
			o.violate("in-full", "irrigation-water-missing", d, fmt.Sprintf("the irrigation of %s (%.4g cm) never entered the surface input", Day(d).ISO(), want[d]), nil)
			break
		}
	}
	// ---- sowing and harvest (fixed dates)
	var ssched, hsched []Day
	for _, e := range w.Rot[1:] {
		if e.Sow >= start && e.Sow <= end {
			ssched = append(ssched, e.Sow)
		}
		if e.Harvest <= end && e.Sow <= end {
			hsched = append(hsched, e.Harvest)
		}
	}
	o.matchSchedule("sowing", ssched, days(by["sowing"]), 0, 0)
	o.matchSchedule("harvest", hsched, days(by["harvest"]), 0, 0)
	o.addStat("actions.fertilisation", float64(len(fsched)))
	o.addStat("actions.tillage", float64(len(tsched)))
	o.addStat("actions.irrigation", float64(len(isched)))
	o.addStat("actions.sowing", float64(len(ssched)))
}

// fertilisations: one day of slack; the residue booking of the preceding crop occupies the day after the start
func (o *c10Oracle) matchScheduleResidueAware(scheduled []Day, executed []Day, start Day) {
	o.matchSchedule("fertilisation", scheduled, executed, 1, start+1)
}

// checkFertAmounts: mineral and organic N of fertilisation i enter the pools in the amounts of the fertiliser table.
func (o *c10Oracle) checkFertAmounts(i int, f FertEvent, day Day) {
	var ft *FertType
	for k := range paramTables.Fertilizer {
		if paramTables.Fertilizer[k].Name == f.Type {
			ft = &paramTables.Fertilizer[k]
		}
	}
	j := o.jumps[int(day)]
	if ft == nil || j == nil {
		if ft != nil && float64(f.Amt)*o.w.Cfg.Fertilization > 0 {
			o.violate("in-full", "fertiliser-left-no-trace-in-pools", int(day), fmt.Sprintf("fertilisation %d (%d of %s) logged on %s changed neither the fertiliser sums nor the organic pools", i+1, f.Amt, f.Type, day.ISO()), nil)
		}
		return
	}
	total := float64(f.Amt) * o.w.Cfg.Fertilization / 100 * ft.Ntot
	minBefore := total * ft.Ndir
	wantMin := minBefore * (1 - ft.NH4*ft.Loss)
	wantNH4 := minBefore * ft.NH4 * (1 - ft.Loss)
	t := 1e-9 + 1e-9*total
	if math.Abs(j.dDSUMM-wantMin) > t {
		o.violate("in-full", "mineral-fertiliser-amount-differs", int(day), fmt.Sprintf("fertilisation %d: %d x %s (factor %.0f %%): the mineral fertiliser sum rose by %.9g kg N/ha, the table gives %.9g (total %.6g, mineral share %.3g, ammonium share %.3g, loss %.3g)", i+1, f.Amt, f.Type, o.w.Cfg.Fertilization, j.dDSUMM, wantMin, total, ft.Ndir, ft.NH4, ft.Loss), nil)
	}
	if math.Abs(j.dNH4-wantNH4) > t {
		o.violate("in-full", "ammonium-amount-differs", int(day), fmt.Sprintf("fertilisation %d: %d x %s: the ammonium sum rose by %.9g kg N/ha, the table gives %.9g", i+1, f.Amt, f.Type, j.dNH4, wantNH4), nil)
	}
	if !j.harvest && !j.tillage {
		// organic part: the table's fast/slow shares of the non-mineral N (the share basis with or without the ammonia loss is accepted)
		for _, p := range []struct {
			name  string
			got   float64
			share float64
		}{{"fast", j.dFast0, ft.Nfst}, {"slow", j.dSlow0, ft.Nslo}} {
			a := (total - wantMin) * p.share
			b := (total - minBefore) * p.share
			if math.Abs(p.got-a) > t && math.Abs(p.got-b) > t {
				o.violate("in-full", "organic-fertiliser-amount-differs:"+p.name, int(day), fmt.Sprintf("fertilisation %d: %d x %s: the %s organic pool of the top layer rose by %.9g kg N/ha, the table gives %.9g", i+1, f.Amt, f.Type, p.name, p.got, a), nil)
			}
		}
		if ft.Nfst+ft.Nslo > 0 {
			o.hit("reach.organic-fertiliser")
		}
	}
	// closure: the parts never exceed what was applied
	if j.dDSUMM+math.Max(j.dFast0, 0)+math.Max(j.dSlow0, 0) > total+t && !j.harvest && !j.tillage {
		o.violate("in-full", "fertiliser-parts-exceed-total", int(day), fmt.Sprintf("fertilisation %d: mineral %.6g + fast %.6g + slow %.6g exceed the %.6g kg N/ha applied", i+1, j.dDSUMM, j.dFast0, j.dSlow0, total), nil)
	}
	if ft.Loss > 0 {
		o.hit("reach.fertiliser-with-loss")
	}
}

func findMgmt(d *SimDisk, outID string) *SimFile {
	for _, p := range d.Paths() {
		base := p[strings.LastIndexByte(p, '/')+1:]
		if base == "M"+outID+".txt" {
			return d.Get(p)
		}
	}
	return nil
}

// genSchedule draws a dense management schedule for C10.
func genC10Schedule(r *RNG, w *World) {
	start, end := w.Start(), w.Cfg.End
	pt := paramTables
	mk := func(n int, minGap, maxGap int, pre bool) []Day {
		var ds []Day
		d := start + Day(r.Range(0, 60))
		if pre {
			d = start - Day(r.Range(1, 200))
		}
		for i := 0; i < n; i++ {
			ds = append(ds, d)
			switch r.Intn(6) {
			case 0:
				// same day again (pairs only)
				if len(ds) < 2 || ds[len(ds)-2] != d {
					continue
				}
				d += 1
			case 1:
				d += 1
			default:
				d += Day(r.Range(minGap, maxGap))
			}
			if d > end+60 {
				break
			}
		}
		return ds
	}
	w.Fert, w.Irr, w.Till = nil, nil, nil
	for _, d := range mk(r.Range(0, 40), 2, 150, r.Bool(0.4)) {
		ft := pt.Fertilizer[r.Intn(len(pt.Fertilizer))]
		w.Fert = append(w.Fert, FertEvent{Day: d, Amt: r.PickI([]int{10, 40, 80, 120, 250}), Type: ft.Name})
	}
	lastIrr := Day(0)
	for _, d := range mk(r.Range(0, 40), 1, 90, r.Bool(0.4)) {
		if d == lastIrr {
			continue // one irrigation per day
		}
		lastIrr = d
		w.Irr = append(w.Irr, IrrEvent{Day: d, MM: r.PickI([]int{5, 10, 20, 30, 60}), NO3: r.PickI([]int{0, 0, 10, 50})})
	}
	w.IrrOn = r.Bool(0.9)
	for _, d := range mk(r.Range(0, 25), 2, 200, r.Bool(0.4)) {
		if !inGrowing(w.Rot, d) && !inGrowing(w.Rot, d+1) && !inGrowing(w.Rot, d+2) {
			w.Till = append(w.Till, TillEvent{Day: d, Depth: r.PickI([]int{5, 10, 12, 15, 20, 25, 30, 0}), Type: r.PickI([]int{1, 1, 2})})
		}
	}
}

func init() {
	register(&CheckDef{
		Prop: "C10", Level: "exploration",
		Gen: func(r *RNG, idx int, tier string) *Scenario {
			p := DefaultProfile()
			p.MaxYears = 5
			p.GWModes = []string{"soilfile"}
			p.Storms = 0.2
			p.MinLayers = 3
			w := GenWorld(r.Sub("world", 0), p, paramTables)
			w.Cfg.MgmtEvents = 1
			w.Decoys = r.Range(0, 2)
			genC10Schedule(r.Sub("sched", 0), w)
			if r.Bool(0.12) {
				// a project without tillage: no events and no tillage file at all
				w.Till, w.NoTilFile = nil, true
			}
			return &Scenario{Prop: "C10", Kind: "single", World: w, Bug: genBug(r.Sub("bug", 0), false)}
		},
		Exec: func(sc *Scenario, env *Env) *Result {
			o := &c10Oracle{w: sc.World, jumps: map[int]*dayJump{}}
			o.init("C10")
			res, _ := runTrajectory(sc, env, nil, []Oracle{o}, nil)
			return res
		},
		Quick: 2000, Thorough: 60000,
		NonTrivial: func(res *Result) bool {
			return res.Status == "ok" && res.Stats["actions.fertilisation"]+res.Stats["actions.tillage"]+res.Stats["actions.irrigation"] >= 3
		},
		Rule:      "one generated world per evaluation with dense schedules per action kind (0-40 events, consecutive days, same-day pairs of fertilisations/tillages, events before the start and after the end, other fields in the same files, every fertiliser type, four date formats); reference model = the sorted scheduled events inside the period; the management event stream (history: exactly once, order, date within [scheduled, scheduled+1] or pushed by the predecessor) and the state jumps seen by the probes (irrigation water in the day's surface input, fertiliser sums and top-layer organic pools) are checked against it; non-trivial = at least three scheduled actions inside the period",
		ReachKeys: []string{"actions.fertilisation", "actions.tillage", "actions.irrigation", "actions.sowing", "reach.same-day-pair", "reach.pre-start-action", "reach.post-end-action", "reach.organic-fertiliser", "reach.fertiliser-with-loss"},
		Assumptions: []string{
			"the fertiliser reference is computed from the table as a table (total N x quantity x factor; mineral share; ammonium share and loss; fast/slow shares of the rest); for the organic shares both bases (with / without the ammonia loss) are accepted",
			"the first logged fertilisation on the day after the start is the residue booking of the preceding crop and is not a scheduled action",
			"automatic management off (C16 covers it)",
		},
	})
}
