package main

// Reference calendar: Go's time package. The model counts days from
// 01.01.1901 = 1; the reference epoch is therefore 1900-12-31.

import (
	"fmt"
	"strconv"
	"strings"
	"time"
)

var epoch = time.Date(1900, 12, 31, 0, 0, 0, 0, time.UTC)

// Day is a calendar date as days since 1900-12-31 (the model's ZEIT unit).
type Day int

func DayOf(y, m, d int) Day {
	t := time.Date(y, time.Month(m), d, 0, 0, 0, 0, time.UTC)
	return Day(int(t.Sub(epoch).Hours()+0.5) / 24)
}

func (d Day) Time() time.Time { return epoch.AddDate(0, 0, int(d)) }
func (d Day) Year() int       { return d.Time().Year() }
func (d Day) YearDay() int    { return d.Time().YearDay() }
func (d Day) YMD() (int, int, int) {
	t := d.Time()
	return t.Year(), int(t.Month()), t.Day()
}
func (d Day) ISO() string { return d.Time().Format("2006-01-02") }

func isLeap(y int) bool { return y%4 == 0 && (y%100 != 0 || y%400 == 0) }
func daysIn(y int) int {
	if isLeap(y) {
		return 366
	}
	return 365
}

// Date formats of the model configuration.
const (
	DEshort = "DateDEshort"
	DElong  = "DateDElong"
	ENshort = "DateENshort"
	ENlong  = "DateENlong"
)

var allDateFormats = []string{DEshort, DElong, ENshort, ENlong}

// FmtDate renders a date the way input files carry it (no separators).
func FmtDate(d Day, format string) string {
	y, m, dd := d.YMD()
	switch format {
	case DEshort:
		return fmt.Sprintf("%02d%02d%02d", dd, m, y%100)
	case DElong:
		return fmt.Sprintf("%02d%02d%04d", dd, m, y)
	case ENshort:
		return fmt.Sprintf("%02d%02d%02d", m, dd, y%100)
	default:
		return fmt.Sprintf("%02d%02d%04d", m, dd, y)
	}
}

// FmtDayMonth renders the 4-character annual output date.
func FmtDayMonth(m, d int, format string) string {
	if format == DEshort || format == DElong {
		return fmt.Sprintf("%02d%02d", d, m)
	}
	return fmt.Sprintf("%02d%02d", m, d)
}

// ParseOutDate parses a date as the model prints it in result files
// (separator "."), with the reference calendar. cent is the century split for
// short formats.
func ParseOutDate(s string, format string, cent int) (Day, error) {
	s = strings.TrimSpace(s)
	parts := strings.Split(s, ".")
	if len(parts) != 3 {
		return 0, fmt.Errorf("bad date %q", s)
	}
	a, e1 := strconv.Atoi(parts[0])
	b, e2 := strconv.Atoi(parts[1])
	c, e3 := strconv.Atoi(parts[2])
	if e1 != nil || e2 != nil || e3 != nil {
		return 0, fmt.Errorf("bad date %q", s)
	}
	var dd, m, y int
	switch format {
	case DEshort, DElong:
		dd, m = a, b
	default:
		m, dd = a, b
	}
	y = c
	if format == DEshort || format == ENshort {
		if c < cent {
			y = 2000 + c
		} else {
			y = 1900 + c
		}
	}
	if m < 1 || m > 12 || dd < 1 || dd > 31 {
		return 0, fmt.Errorf("bad date %q", s)
	}
	t := time.Date(y, time.Month(m), dd, 0, 0, 0, 0, time.UTC)
	if t.Day() != dd || int(t.Month()) != m {
		return 0, fmt.Errorf("not a calendar date %q", s)
	}
	return DayOf(y, m, dd), nil
}
