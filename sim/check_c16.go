package main

// C16 — crop rotation is followed and automatic management respects its windows.

import (
	"fmt"
	"strings"

	"github.com/zalf-rpm/Hermes2Go/hermes"
)

type c16Oracle struct {
	obase
	w        *World
	preDSUMM float64
	irrDays  int
}

func (o *c16Oracle) Probe(pt string, zeit, subd int, wdt float64, g *G, w *hermes.WaterSharedVars, n *hermes.NitroSharedVars, c *hermes.CropSharedVars) {
	switch pt {
	case "evatra":
		if !o.w.Cfg.AutoIrr || g.EffectiveIRRIG == 0 {
			return
		}
		o.irrDays++
		o.hit("reach.auto-irrigation-day")
		akf := g.AKF.Index
		if akf < 1 || akf >= len(o.w.Rot) {
			o.violate("auto-irrigation", "irrigation-without-crop", zeit, "automatic irrigation applied while no rotation crop is current", nil)
			return
		}
		a := o.w.autoLine(o.w.Rot[akf].Crop)
		if a == nil {
			return
		}
		if g.SAAT[akf] > 0 && zeit <= g.SAAT[akf] {
			// development stages belong to a crop that has been sown: on or before the sowing date the model itself holds
			// for the current rotation entry the field is bare
			o.violate("auto-irrigation", "irrigation-before-sowing", zeit,
				fmt.Sprintf("automatic irrigation of %.4g mm applied on %s, the current rotation entry (%s) is not sown before %s", g.EffectiveIRRIG*10, Day(zeit).ISO(), a.Crop, Day(g.SAAT[akf]).ISO()), nil)
		}
		st := int(g.INTWICK.Num)
		if st < a.IrrSt1 || st > a.IrrSt2 {
			o.violate("auto-irrigation", "irrigation-outside-stage-window", zeit,
				fmt.Sprintf("automatic irrigation of %.4g mm applied to %s in development stage %d, configured stages %d..%d", g.EffectiveIRRIG*10, a.Crop, st, a.IrrSt1, a.IrrSt2), map[string]float64{"stage": float64(st)})
		}
		if mm := g.EffectiveIRRIG * 10; mm > float64(a.IrrMax)+1e-9 || mm < 0 {
			o.violate("auto-irrigation", "irrigation-above-daily-maximum", zeit,
				fmt.Sprintf("automatic irrigation of %.6g mm exceeds the configured daily maximum %d mm (%s)", mm, a.IrrMax, a.Crop), map[string]float64{"mm": mm})
		}
		if !(zeit > g.SAAT[akf] && g.SAAT[akf] > 0) {
			o.violate("auto-irrigation", "irrigation-before-sowing", zeit, "automatic irrigation applied before the current crop was sown", nil)
		}
	case "nitro.pre":
		if subd == 1 {
			o.preDSUMM = g.DSUMM
		}
	case "nitro.post":
		if subd == 1 && o.w.Cfg.AutoFert {
			if d := g.DSUMM - o.preDSUMM; d < -1e-12 {
				o.violate("auto-fertilisation", "negative-automatic-n-application", zeit, fmt.Sprintf("the mineral fertiliser sum fell by %.6g kg N/ha on a day of automatic fertilisation", -d), nil)
			} else if d > 0 {
				o.hit("reach.auto-n-application")
			}
		}
	}
}

func (o *c16Oracle) Finish(out *RunOutcome, res *Result) {
	defer o.flush(res)
	if out == nil || !out.Success {
		return
	}
	w := o.w
	c := &w.Cfg
	end := c.End
	evs, err := parseMgmt(findMgmt(out.Disk, outIDWorld(w)), c.DateFormat, c.DivideCentury)
	if err != nil {
		o.violate("event-log", "unparsable-management-log", 0, err.Error(), nil)
		return
	}
	var sow, har []mgmtEvent
	for _, e := range evs {
		switch e.kind {
		case "sowing":
			sow = append(sow, e)
		case "harvest":
			har = append(har, e)
		case "fertilization":
			for _, k := range []string{"Ndirect", "NH4"} {
				if v, ok := atof(e.attrs[k]); ok && v < 0 {
					o.violate("auto-fertilisation", "negative-automatic-n-application", int(e.day), "management log: "+e.raw, nil)
				}
			}
		}
	}
	// crops in rotation order
	prevHarvest := w.Start()
	for i := 1; i < len(w.Rot); i++ {
		e := w.Rot[i]
		s1, s2, h2 := w.AutoWindows(i)
		firstSow, lastSow := e.Sow, e.Sow
		if c.AutoSow {
			firstSow, lastSow = s1, s2
		}
		lastHar := e.Harvest
		if c.AutoHarvest {
			lastHar = h2
		}
		if firstSow > end {
			break // the rest of the rotation lies behind the end date
		}
		if i-1 >= len(sow) {
			if lastSow <= end {
				o.violate("rotation", "crop-of-rotation-never-sown", int(lastSow), fmt.Sprintf("rotation entry %d (%s, sowing window %s..%s) was never sown; %d sowing events in the run", i, e.Crop, firstSow.ISO(), lastSow.ISO(), len(sow)), nil)
			}
			break
		}
		sv := sow[i-1]
		if got := strings.TrimSpace(sv.attrs["Crop"]); got != strings.TrimSpace(e.Crop) {
			o.violate("rotation", "sown-crop-differs-from-rotation-entry", int(sv.day), fmt.Sprintf("sowing %d is %q, rotation entry %d is %q", i, got, i, e.Crop), nil)
		}
		if !c.AutoSow {
			if sv.day != e.Sow {
				o.violate("fixed-dates", "sowing-not-on-rotation-date", int(sv.day), fmt.Sprintf("%s sown on %s, the rotation file says %s", e.Crop, sv.day.ISO(), e.Sow.ISO()), nil)
			}
		} else {
			if sv.day < s1 || sv.day > s2 {
				o.violate("auto-sowing", "sowing-outside-window", int(sv.day), fmt.Sprintf("%s sown automatically on %s, outside the configured window %s..%s", e.Crop, sv.day.ISO(), s1.ISO(), s2.ISO()), nil)
			}
			if sv.day <= prevHarvest {
				o.violate("auto-sowing", "sowing-not-after-previous-harvest", int(sv.day), fmt.Sprintf("%s sown on %s, the previous crop was harvested on %s", e.Crop, sv.day.ISO(), prevHarvest.ISO()), nil)
			}
			if sv.day == s2 {
				o.hit("reach.forced-sowing-at-window-end")
			} else {
				o.hit("reach.triggered-sowing")
			}
		}
		if i-1 >= len(har) {
			if lastHar <= end {
				o.violate("rotation", "crop-of-rotation-never-harvested", int(lastHar), fmt.Sprintf("rotation entry %d (%s, latest harvest %s) was never harvested", i, e.Crop, lastHar.ISO()), nil)
			}
			break
		}
		hv := har[i-1]
		if !c.AutoHarvest {
			if hv.day != e.Harvest {
				o.violate("fixed-dates", "harvest-not-on-rotation-date", int(hv.day), fmt.Sprintf("%s harvested on %s, the rotation file says %s", e.Crop, hv.day.ISO(), e.Harvest.ISO()), nil)
			}
		} else {
			if hv.day > h2 {
				o.violate("auto-harvest", "harvest-after-latest-date", int(hv.day), fmt.Sprintf("%s harvested automatically on %s, later than the configured latest harvest date %s", e.Crop, hv.day.ISO(), h2.ISO()), nil)
			}
			if hv.day <= sv.day {
				o.violate("auto-harvest", "harvest-not-after-sowing", int(hv.day), fmt.Sprintf("%s harvested on %s, sown on %s", e.Crop, hv.day.ISO(), sv.day.ISO()), nil)
			}
			if hv.day == h2 {
				o.hit("reach.forced-harvest-at-latest-date")
			} else {
				o.hit("reach.triggered-harvest")
			}
		}
		prevHarvest = hv.day
		o.hit("rotation.crops-harvested")
	}
	if len(sow) > len(w.Rot)-1 || len(har) > len(w.Rot)-1 {
		o.violate("rotation", "more-crops-than-rotation-entries", 0, fmt.Sprintf("%d sowings and %d harvests for a rotation of %d crops", len(sow), len(har), len(w.Rot)-1), nil)
	}
	// crop records carry crop code and harvest year of their rotation entry
	st := parseStream(findStream(out.Disk, "C", outIDWorld(w)), c.ResultFormat == 1, 1)
	cc, cy := st.col("Crop"), st.col("HarvestYear")
	if cc >= 0 && cy >= 0 {
		for i, rec := range st.Recs {
			if i >= len(har) || i+1 >= len(w.Rot) || len(rec) <= cy {
				break
			}
			y, _ := atoi(rec[cy])
			// with fixed dates the entry is harvested on the file's date, so the two years coincide; automatic harvest may
			// fall into another calendar year than the file's planned date (a winter crop ripening in December at southern
			// latitudes): the record then carries the year in which the entry was actually harvested
			fileYearOK := y == w.Rot[i+1].Harvest.Year() || c.AutoHarvest
			if strings.TrimSpace(rec[cc]) != strings.TrimSpace(w.Rot[i+1].Crop) || y != har[i].day.Year() || !fileYearOK {
				o.violate("crop-record", "crop-record-differs-from-rotation-entry", int(har[i].day), fmt.Sprintf("crop record %d is (%s, %d); rotation entry is (%s, harvest year %d), harvested %s", i+1, rec[cc], y, w.Rot[i+1].Crop, w.Rot[i+1].Harvest.Year(), har[i].day.ISO()), nil)
				break
			}
		}
		if len(st.Recs) != len(har) {
			o.violate("crop-record", "crop-record-count-differs-from-harvests", 0, fmt.Sprintf("%d crop records, %d harvest events", len(st.Recs), len(har)), nil)
		}
	}
	sw := 0
	for i, b := range []bool{c.AutoSow, c.AutoFert, c.AutoIrr, c.AutoHarvest} {
		if b {
			sw |= 1 << i
		}
	}
	o.addStat(fmt.Sprintf("switches.%02d", sw), 1)
}

func init() {
	register(&CheckDef{
		Prop: "C16", Level: "exploration",
		Gen: func(r *RNG, idx int, tier string) *Scenario {
			p := DefaultProfile()
			p.MinYears, p.MaxYears = 2, 6
			p.GWModes = []string{"soilfile"}
			p.BareProb = 0
			p.AllowAuto = true
			p.Storms = 0.3
			p.MinLayers = 4
			w := GenWorld(r.Sub("world", 0), p, paramTables)
			// all 16 combinations of the four switches, evenly
			k := idx % 16
			want := [4]bool{k&1 != 0, k&2 != 0, k&4 != 0, k&8 != 0}
			c := &w.Cfg
			c.AutoSow, c.AutoFert, c.AutoIrr, c.AutoHarvest = want[0], want[1], want[2], want[3]
			if !w.autoValid() {
				for i := range w.Auto {
					for _, e := range w.Rot[1:] {
						if e.Crop == w.Auto[i].Crop {
							_, w.Auto[i].Sow1M, w.Auto[i].Sow1D = e.Sow.YMD()
							_, w.Auto[i].Sow2M, w.Auto[i].Sow2D = e.Sow.YMD()
							_, w.Auto[i].Har2M, w.Auto[i].Har2D = e.Harvest.YMD()
							break
						}
					}
				}
				if !w.autoValid() {
					// same crop twice with different dates: keep the first occurrence only
					seen := map[string]bool{}
					rot := w.Rot[:1]
					for _, e := range w.Rot[1:] {
						if !seen[e.Crop] {
							seen[e.Crop] = true
							rot = append(rot, e)
						} else {
							break
						}
					}
					w.Rot = rot
				}
			}
			// stratum: the preceding crop stands until 1-4 days before the next sowing date / window, and the window is
			// short; optionally the harvested crop gets its automatic organic dressing after harvest
			if len(w.Rot) > 2 && r.Bool(0.3) {
				i := r.Range(2, len(w.Rot)-1)
				cur := w.Rot[i]
				firstSow := cur.Sow
				if c.AutoSow {
					firstSow, _, _ = w.AutoWindows(i)
				}
				newH := firstSow - Day(r.Range(1, 4))
				prevLine := w.autoLine(w.Rot[i-1].Crop)
				curLine := w.autoLine(cur.Crop)
				// the rotation file must keep its dates ascending: the moved harvest stays before the file's next sowing date
				if newH.Year() == w.Rot[i-1].Harvest.Year() && newH > w.Rot[i-1].Harvest && newH < cur.Sow && prevLine != nil && curLine != nil && w.Rot[i-1].Crop != cur.Crop {
					savedRot, savedPrev, savedCur := w.Rot[i-1], *prevLine, *curLine
					w.Rot[i-1].Harvest = newH
					_, prevLine.Har2M, prevLine.Har2D = newH.YMD()
					if c.AutoSow {
						_, curLine.Sow2M, curLine.Sow2D = (firstSow + Day(r.Range(0, 3))).YMD()
					}
					if r.Bool(0.5) {
						var org []string
						for _, f := range paramTables.Fertilizer {
							if f.Nfst+f.Nslo > 0 {
								org = append(org, f.Name)
							}
						}
						if len(org) > 0 {
							w.Rot[i-1].AutOrg = 1
							prevLine.OrgF, prevLine.OrgAmt, prevLine.App = r.PickS(org), r.PickI([]int{100, 200, 300}), r.PickS([]string{"H1", "H1", "S1"})
						}
					}
					w.TightGap = true
					if !w.autoValid() {
						w.Rot[i-1], *prevLine, *curLine, w.TightGap = savedRot, savedPrev, savedCur, false
					}
				}
			}
			if c.AutoHarvest {
				w.Till = nil
			}
			c.MgmtEvents = 1
			return &Scenario{Prop: "C16", Kind: "single", World: w, Bug: &BuggifySpec{Off: true}}
		},
		Exec: func(sc *Scenario, env *Env) *Result {
			o := &c16Oracle{w: sc.World}
			o.init("C16")
			res, _ := runTrajectory(sc, env, nil, []Oracle{o}, nil)
			return res
		},
		Quick: 1920, Thorough: 60000,
		NonTrivial: func(res *Result) bool { return res.Status == "ok" && res.Stats["rotation.crops-harvested"] > 0 },
		Rule:       "one generated world per evaluation: rotations of shipped annual crops whose sowing windows open after the latest harvest date of the preceding crop, a generated automatic-management table, the 16 on/off combinations of the four automation switches in rotation over the scenario index; the management event stream and the crop result stream are checked as histories against the rotation and the table (order and identity of crops, fixed dates, sowing inside the window and after the previous harvest, harvest not later than the latest date), probes give the development stage and amount of every automatic irrigation and the sign of every automatic N application; non-trivial = at least one crop of the rotation was harvested",
		ReachKeys:  []string{"rotation.crops-harvested", "reach.triggered-sowing", "reach.forced-sowing-at-window-end", "reach.triggered-harvest", "reach.forced-harvest-at-latest-date", "reach.auto-irrigation-day", "reach.auto-n-application"},
		Assumptions: []string{
			"the generator keeps sowing windows behind the preceding crop's latest harvest date (the property's quantifier) and schedules no tillage under automatic harvest (the model postpones such tillage through the season)",
		},
	})
}
