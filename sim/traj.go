package main

// Trajectory checks: one real session.Run per scenario with probes installed;
// oracles are evaluated online at every probe (sub-step resolution).

import (
	"path/filepath"
	"encoding/json"
	"fmt"
	"math"
	"os"
	"os/exec"
	"strings"
	"time"

	"github.com/zalf-rpm/Hermes2Go/hermes"
)

type G = hermes.GlobalVarsMain

var debugNaN = os.Getenv("VERIF_DEBUG_NAN") != ""
var debugNaNDone bool

// Oracle is evaluated online during a run.
type Oracle interface {
	Probe(pt string, zeit, subd int, wdt float64, g *G, w *hermes.WaterSharedVars, n *hermes.NitroSharedVars, c *hermes.CropSharedVars)
	Finish(out *RunOutcome, res *Result)
}

// base carries violations and reach counters for an oracle.
type obase struct {
	prop  string
	viols []Violation
	stats map[string]float64
	nviol map[string]int
}

func (b *obase) init(prop string) {
	b.prop = prop
	b.stats = map[string]float64{}
	b.nviol = map[string]int{}
}
func (b *obase) hit(k string)              { b.stats[k]++ }
func (b *obase) addStat(k string, v float64) { b.stats[k] += v }
func (b *obase) violate(oracle, class string, zeit int, detail string, vals map[string]float64) {
	b.nviol[class]++
	if b.nviol[class] > 1 || len(b.viols) >= 8 {
		return // first observation per class only
	}
	d := ""
	if zeit > 0 {
		d = Day(zeit).ISO()
	}
	b.viols = append(b.viols, Violation{Prop: b.prop, Oracle: oracle, Class: class, Day: d, Detail: detail, Values: vals})
}
func (b *obase) flush(res *Result) {
	res.Violations = append(res.Violations, b.viols...)
	for k, v := range b.stats {
		res.add(k, v)
	}
	for k, v := range b.nviol {
		res.add("viol."+k, float64(v))
	}
}

func tol(terms ...float64) float64 {
	s := 0.0
	for _, t := range terms {
		s += math.Abs(t)
	}
	return 1e-9 + 1e-12*s
}

func finite(x float64) bool { return !math.IsNaN(x) && !math.IsInf(x, 0) }

// common per-day tracker shared by oracles: sub-step statistics
type stepStats struct {
	steps   int
	wdtSum  float64
	lastDay int
}

// runTrajectory materialises the world, runs it with the oracles attached and
// returns the result.
func runTrajectory(sc *Scenario, env *Env, oc *OutputCfg, oracles []Oracle, extraArgs []string) (*Result, *RunOutcome) {
	return runTrajectoryHook(sc, env, oc, oracles, extraArgs, nil)
}

// runTrajectoryHook is runTrajectory with a callback that receives the materialised root before the run starts.
func runTrajectoryHook(sc *Scenario, env *Env, oc *OutputCfg, oracles []Oracle, extraArgs []string, onRoot func(root string)) (*Result, *RunOutcome) {
	t0 := time.Now()
	res := &Result{Idx: sc.Idx, Status: "ok"}
	w := sc.World
	ww := BuildWeather(&w.Weather, w.Cfg.NoneValue, sc.Grid)
	root := env.NewRoot()
	fs := w.Files(oc, ww)
	if err := WriteFiles(root, fs, env.ParamDir); err != nil {
		res.Status = "invalid"
		res.Note = "materialise: " + err.Error()
		return res, nil
	}
	if onRoot != nil {
		onRoot(root)
	}
	natSteps := map[int]int{}
	hooks := &hermes.VerifHooks{
		Substeps: func(g *G, zeit int, wdt float64) float64 {
			n := int(math.Round(1 / wdt))
			natSteps[n]++
			k := sc.Bug.K(zeit)
			if k <= 1 {
				return wdt
			}
			res.add("bug.days", 1)
			return 1 / float64(n*k)
		},
		Probe: func(pt string, zeit, subd int, wdt float64, g *G, wv *hermes.WaterSharedVars, nv *hermes.NitroSharedVars, cv *hermes.CropSharedVars) {
			for _, o := range oracles {
				o.Probe(pt, zeit, subd, wdt, g, wv, nv, cv)
			}
			if debugNaN && !debugNaNDone {
				if p, f, ok := firstNonFinite(g); ok {
					debugNaNDone = true
					fmt.Fprintf(os.Stderr, "DEBUG first non-finite: %s=%v at probe %s day %s subd %d (N=%d WURZ=%d AKF=%v INTWICK=%v)\n", p, f, pt, Day(zeit).ISO(), subd, g.N, g.WURZ, g.AKF.Num, g.INTWICK.Num)
				}
			}
			if pt == "dayend" {
				res.add("days", 1)
			} else if pt == "water.post" {
				res.add("substeps", 1)
			}
		},
	}
	disk := NewSimDisk()
	out := env.RunSingle(root, w.Args(extraArgs...), hooks, disk)
	out.Err = strings.ReplaceAll(out.Err, root, "<root>") // scratch paths differ from process to process
	if dd := os.Getenv("VERIF_DUMP_DISK"); dd != "" {
		os.MkdirAll(dd, 0o755)
		for _, p := range disk.Paths() {
			os.WriteFile(dd+"/"+p[strings.LastIndexByte(p, '/')+1:], disk.Get(p).Data, 0o644)
		}
		fmt.Fprintln(os.Stderr, "DEBUG input root:", root, "run error:", out.Err)
		exec.Command("cp", "-r", root, dd+"/input").Run()
	}
	for n, c := range natSteps {
		switch {
		case n >= 50:
			res.add("days.nat50", float64(c))
		case n >= 8:
			res.add("days.nat8", float64(c))
		case n >= 2:
			res.add("days.nat2", float64(c))
		}
	}
	tornInput := w.WxFault != nil && w.WxFault.Kind == "torn-tail" // an input file cut in the middle of a record: any way of giving up is acceptable
	if out.Panic != "" && tornInput {
		res.Status, res.Note = "invalid", "run gave up on a torn input file: "+shortPanic(out.Panic)
		res.add("reach.torn-file-ended-the-run", 1)
	} else if out.Panic != "" {
		res.Status = "crash"
		res.Note = "panic: " + shortPanic(out.Panic)
		if where, model := panicOrigin(out.Panic); model {
			// valid input must never make the model panic: the run did not complete, so none of its invariants can hold
			file := where
			if i := strings.LastIndexByte(file, ':'); i > 0 {
				file = file[:i]
			}
			res.Violations = append(res.Violations, Violation{Prop: sc.Prop, Oracle: "run-completes", Class: "model-panic@" + file,
				Detail: "the run panicked inside the model on a valid input: " + firstLine(out.Panic) + " at " + where})
		}
	} else if !out.Success {
		res.Status = "invalid"
		res.Note = "run error: " + out.Err
	}
	for _, o := range oracles {
		o.Finish(out, res)
	}
	if len(res.Violations) > 0 {
		res.Status = "violation"
	}
	// real-disk slice: the same run once more with the shipped file writer, no hooks; the files must equal the simulated disk byte for byte
	dynamicFault := w.WxFault != nil && w.WxFault.Kind == "delete-at" // injected by the probe at a simulated date: not reproducible without hooks
	if sc.Idx%40 == 7 && dynamicFault {
		res.add("realdisk.skipped-dynamic-fault", 1)
	}
	if sc.Idx%40 == 7 && out.Panic == "" && !dynamicFault && os.Getenv("VERIF_NO_REALDISK") == "" {
		root2 := env.NewRoot()
		if err := WriteFiles(root2, fs, env.ParamDir); err == nil {
			if onRoot != nil {
				onRoot(root2)
			}
			var hooks2 *hermes.VerifHooks
			if sc.Bug != nil && !sc.Bug.Off {
				hooks2 = &hermes.VerifHooks{Substeps: hooks.Substeps} // same sub-step schedule, nothing else
				nb := res.Stats["bug.days"]
				defer func() { res.Stats["bug.days"] = nb }()
			}
			// stale result files of an earlier run (longer than what this run writes) are already on the real disk
			for _, p := range disk.Paths() {
				rel := strings.TrimPrefix(p, root)
				os.MkdirAll(filepath.Dir(root2+rel), 0o755)
				os.WriteFile(root2+rel, append(append([]byte{}, disk.Get(p).Data...), []byte("STALE RECORD OF AN EARLIER RUN\r\nSTALE\r\n")...), 0o644)
				res.add("realdisk.stale-files-planted", 1)
			}
			out2 := env.RunSingle(root2, w.Args(extraArgs...), hooks2, nil)
			if out2.Success == out.Success && out2.Panic == "" {
				n := 0
				for _, p := range disk.Paths() {
					rel := strings.TrimPrefix(p, root)
					b, err := os.ReadFile(root2 + rel)
					if err != nil || string(b) != string(disk.Get(p).Data) {
						sim := disk.Get(p).Data
						if sc.Prop == "C05" && err == nil {
							// C05 is a statement about the result files themselves: the recorded stream is what the run wrote (judged by the
							// record oracles), so a real file with other content holds records the run did not write or lacks some it wrote
							what := "other content"
							if len(b) > len(sim) && string(b[:len(sim)]) == string(sim) {
								what = "the run's records followed by what an earlier run had left in the file"
							} else if len(b) < len(sim) && string(sim[:len(b)]) == string(b) {
								what = "only a prefix of the run's records"
							}
							res.Violations = append(res.Violations, Violation{Prop: sc.Prop, Oracle: "real-disk", Class: "result-file-on-real-disk-not-exactly-the-runs-records",
								Detail: fmt.Sprintf("shipped file writer over a stale file of an earlier run: %s holds %s (real %d bytes, records written by the run %d bytes)", rel, what, len(b), len(sim))})
							res.Status = "violation"
							break
						}
						res.Harness = fmt.Sprintf("simulated disk and real disk disagree on %s (real: %d bytes, err %v; simulated: %d bytes)", rel, len(b), err, len(sim))
						break
					}
					n++
				}
				res.add("realdisk.files-compared", float64(n))
				res.add("realdisk.runs", 1)
			} else if out2.Panic == "" {
				res.Harness = fmt.Sprintf("run outcome differs between simulated disk (%v %s) and real disk (%v %s)", out.Success, out.Err, out2.Success, strings.ReplaceAll(out2.Err, root2, "<root>"))
			}
		}
		os.RemoveAll(root2)
	}
	res.WallMS = nowMS(t0)
	res.Hash = fmt.Sprintf("%016x", hashWorld(w, sc.Bug))
	res.Digest = disk.Digest() + "|" + out.Err
	return res, out
}

func hashWorld(w *World, b *BuggifySpec) uint64 {
	h := NewRNG(0x1234)
	jb, _ := json.Marshal(struct {
		W *World
		B *BuggifySpec
	}{w, b})
	s := string(jb)
	var x uint64 = 1469598103934665603
	for i := 0; i < len(s); i++ {
		x ^= uint64(s[i])
		x *= 1099511628211
	}
	_ = h
	return x
}

func genBug(r *RNG, heavy bool) *BuggifySpec {
	b := &BuggifySpec{Sub: r.U64(), MaxK: 6}
	switch r.Intn(4) {
	case 0:
		b.Rate = 0
	case 1:
		b.Rate = 0.02
	case 2:
		b.Rate = 0.1
	default:
		b.Rate = 0.3
	}
	if heavy && b.Rate < 0.3 {
		b.Rate = 0.3 + 0.4*r.F()
	}
	return b
}

type hermesWater = hermes.WaterSharedVars
type hermesNitro = hermes.NitroSharedVars
type hermesCrop = hermes.CropSharedVars
