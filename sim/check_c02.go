package main

// C02 — soil mineral-N mass balance closes on every simulated day.
//
// Evaluated from the probes, piecewise over the day so that a residual is
// attributed to the stage that produced it:
//   daystart -> evatra   : irrigation N + deposition enter the top layer
//   evatra   -> nitro.pre: nothing touches mineral N
//   nitro.pre-> nitro.post (every sub-step): source term, uptake, leaching,
//                          drain loss; transport only moves N between layers
//   nitro.post(last) -> dayend: denitrification
// and once more over the whole day with the public cumulative counters, the
// way the property states it.

import (
	"fmt"
	"math"
	"os"

	"github.com/zalf-rpm/Hermes2Go/hermes"
)

type nSnap struct {
	sumC1    float64 // profile layers
	sumAll   float64 // all 21 slots (denitrification may touch slots below a thin profile)
	c1       [21]float64
	aufna    float64
	outsum   float64
	drain    float64
	denit    float64
	ums      float64
	n2onit   float64
	minaos   float64
	minfos   float64
}

func takeNSnap(g *G) nSnap {
	var s nSnap
	for i := 0; i < 21; i++ {
		s.c1[i] = g.C1[i]
		s.sumAll += g.C1[i]
		if i < g.N {
			s.sumC1 += g.C1[i]
		}
		if i < len(g.MINAOS) {
			s.minaos += g.MINAOS[i]
			s.minfos += g.MINFOS[i]
		}
	}
	s.aufna, s.outsum, s.drain, s.denit, s.ums, s.n2onit = g.AUFNASUM, g.OUTSUM, g.DRAINLOSS, g.CUMDENIT, g.UMS, g.N2onitsum
	return s
}

type c02Oracle struct {
	obase
	w         *World
	dayStart  nSnap
	evatra    nSnap
	pre       nSnap
	lastPost  nSnap
	havePost  bool
	firstPre  bool
	overwrite bool
	clampDay  bool
	negDNDay  bool
	day       int
	unstable  bool
	appliedMM float64 // irrigation water carried out today (mm)
}

func (o *c02Oracle) irrN(zeit int) float64 {
	n := 0.0
	if !o.w.IrrOn {
		return 0 // the polygon file switches the field's irrigation schedule off
	}
	var today []IrrEvent
	for _, e := range o.w.Irr {
		if int(e.Day) == zeit {
			today = append(today, e)
		}
	}
	pairs := false
	for i := 1; i < len(o.w.Irr); i++ {
		pairs = pairs || o.w.Irr[i].Day == o.w.Irr[i-1].Day
	}
	if pairs && len(today) == 1 && o.appliedMM == 0 {
		// a schedule with two gifts on one day: the model carries out one irrigation per day and may leave later gifts
		// undone (C10 states that limit and judges the actions); no water today, no irrigation N today
		return 0
	}
	if len(today) > 1 {
		// several gifts dated on one day: the model carries out one irrigation per day (C10 states that limit). The N that
		// enters is the N dissolved in the water that entered: the gifts whose amounts add up to the irrigation water of the day
		applied := o.appliedMM
		for mask := 1; mask < 1<<len(today); mask++ {
			mm, nn := 0.0, 0.0
			for i, e := range today {
				if mask&(1<<i) != 0 {
					mm += float64(e.MM)
					nn += float64(e.NO3) * float64(e.MM) * 0.01
				}
			}
			if math.Abs(mm-applied) < 1e-9 {
				return nn
			}
		}
		return math.NaN() // the water of the day matches no combination of the gifts: judged by C01/C10, not here
	}
	for _, e := range today {
		n += float64(e.NO3) * float64(e.MM) * 0.01 // mg/l * l/m2 = mg/m2 = 0.01 kg/ha
	}
	return n
}

func (o *c02Oracle) Probe(pt string, zeit, subd int, wdt float64, g *G, w *hermes.WaterSharedVars, n *hermes.NitroSharedVars, c *hermes.CropSharedVars) {
	switch pt {
	case "daystart":
		o.day = zeit
		o.dayStart = takeNSnap(g)
		o.overwrite = zeit == int(o.w.Meas.Day) || zeit == g.MESS[g.MZ-1]
		o.firstPre = true
		o.havePost = false
		o.clampDay = false
		o.negDNDay = false
	case "evatra":
		o.evatra = takeNSnap(g)
		if o.overwrite {
			o.hit("days.overwrite-excluded")
			return
		}
		o.appliedMM = 0
		if g.ZTBR[max(g.NBR-2, 0)] == zeit {
			o.appliedMM = g.EffectiveIRRIG * 10 // an irrigation was carried out today (the cursor has moved past an event of today)
		}
		want := g.DEPOS/365 + o.irrN(zeit)
		got := o.evatra.sumC1 - o.dayStart.sumC1
		if math.IsNaN(want) {
			o.hit("days.same-day-gifts-not-attributable")
		} else if math.Abs(got-want) > tol(o.evatra.sumC1, o.dayStart.sumC1, want) {
			o.violate("surface-input", "deposition-plus-irrigation-N", zeit,
				fmt.Sprintf("before the water step mineral N changed by %.12g kg/ha; deposition %.12g + irrigation N %.12g = %.12g", got, g.DEPOS/365, o.irrN(zeit), want),
				map[string]float64{"got": got, "want": want})
		}
		if v := o.irrN(zeit); v > 0 {
			o.hit("reach.irrigation-n")
		}
	case "nitro.pre":
		o.pre = takeNSnap(g)
		if o.firstPre {
			o.firstPre = false
			if !o.overwrite && o.pre.c1 != o.evatra.c1 {
				o.violate("no-hidden-source", "mineral-N-changed-outside-N-routines", zeit,
					"mineral N changed between the evapotranspiration step and the N routine (water step / crop growth must not touch it)", nil)
			}
		}
	case "nitro.post":
		post := takeNSnap(g)
		o.lastPost, o.havePost = post, true
		if o.overwrite {
			return
		}
		src := 0.0
		negDN := false
		for z := 0; z < g.N; z++ {
			src += g.DN[z] * wdt
			if g.DN[z] < 0 {
				negDN = true
			}
		}
		clamped := 0
		for z := 0; z < g.N; z++ {
			pe := 0.0
			if subd == 1 {
				pe = g.PE[z]
			}
			// the clamp sits in two places: the concentration handed to the transport scheme is floored at 0
			// (a layer that cannot supply half the step's immobilisation; transport may refill it afterwards),
			// and the new content is floored at 0 before and after the second half of the source term
			if post.c1[z] == g.DN[z]*wdt/2 || post.c1[z] == 0 || o.pre.c1[z]-pe+g.DN[z]*wdt/2 < 0 {
				clamped++
			}
		}
		dC := post.sumC1 - o.pre.sumC1
		upt := post.aufna - o.pre.aufna
		lea := post.outsum - o.pre.outsum
		dra := post.drain - o.pre.drain
		rhs := src - upt - lea - dra
		r := dC - rhs
		t := tol(post.sumC1, o.pre.sumC1, src, upt, lea, dra) * 10
		if !finite(r) {
			o.violate("finite", "non-finite-N-terms", zeit, fmt.Sprintf("sub-step %d: a term of the N balance is not finite (sum %.6g -> %.6g, source %.6g uptake %.6g leaching %.6g drain %.6g)", subd, o.pre.sumC1, post.sumC1, src, upt, lea, dra), nil)
			return
		}
		if subd > 1 && upt != 0 {
			o.violate("uptake-once", "uptake-booked-on-later-substep", zeit, fmt.Sprintf("sub-step %d booked %.12g kg/ha crop uptake (uptake is taken on the first sub-step only)", subd, upt), nil)
		}
		if r < -t {
			o.violate("substep-balance", "substep-N-lost", zeit,
				fmt.Sprintf("sub-step %d (length %.6g): mineral N changed by %.12g kg/ha but source %.12g - uptake %.12g - leaching %.12g - drain loss %.12g = %.12g: %.3g kg/ha vanished (N=%d, drain layer %d, QDRAIN %.4g, Q1[drain-1..drain] %.4g %.4g)", subd, wdt, dC, src, upt, lea, dra, rhs, -r, g.N, g.DRAIDEP, g.QDRAIN, q1at(g, g.DRAIDEP-1), q1at(g, g.DRAIDEP)),
				map[string]float64{"residual": r, "subd": float64(subd), "wdt": wdt, "N": float64(g.N)})
		} else if r > t {
			if debugNaN {
				fmt.Fprintf(os.Stderr, "DEBUG C02 %s subd %d wdt %g N=%d OUTN=%d DRAIDEP=%d QDRAIN=%g FLUSS0=%g GRW=%v\n Q1 %v\n pre %v\n post %v\n DN %v\n WG0 %v\n W %v\n", Day(zeit).ISO(), subd, wdt, g.N, g.OUTN, g.DRAIDEP, g.QDRAIN, g.FLUSS0, g.GRW, g.Q1[:g.N+2], o.pre.c1[:g.N+1], post.c1[:g.N+1], g.DN[:g.N+1], g.WG[0][:g.N+2], g.W[:g.N+2])
			}
			if clamped == 0 {
				o.violate("substep-balance", "substep-N-created-without-clamp", zeit,
					fmt.Sprintf("sub-step %d (length %.6g): mineral N changed by %.12g kg/ha but source %.12g - uptake %.12g - leaching %.12g - drain loss %.12g = %.12g: %.3g kg/ha appeared and no layer sits on the non-negativity clamp", subd, wdt, dC, src, upt, lea, dra, rhs, r),
					map[string]float64{"residual": r, "subd": float64(subd), "wdt": wdt, "N": float64(g.N)})
			} else {
				o.hit("reach.clamp-gain")
				o.clampDay = true
				// the clamp must flag the run once one layer was below the documented threshold
				if !negDN && r > float64(clamped)*math.Abs(g.C1stabilityVal)+t && g.C1NotStableErr == "" {
					o.violate("instability-flag", "clamp-above-threshold-not-flagged", zeit,
						fmt.Sprintf("sub-step %d: the non-negativity clamp added %.6g kg/ha over %d clamped layers (threshold %.3g per layer) but the run is not flagged unstable", subd, r, clamped, math.Abs(g.C1stabilityVal)), nil)
				}
			}
		}
		if negDN {
			o.negDNDay = true
			o.hit("reach.negative-source")
		}
		if g.C1NotStableErr != "" && !o.unstable {
			o.unstable = true
			o.hit("reach.unstable-flag")
		}
		if g.QDRAIN > 0 {
			o.hit("reach.drain-active")
			if g.DRAIDEP >= 1 && g.DRAIDEP <= g.N && g.Q1[g.DRAIDEP] < 0 {
				o.hit("reach.drain-with-upward-flow")
			}
		}
		if g.Q1[g.N] < 0 {
			o.hit("reach.bottom-upward")
		}
		if lea > 0 {
			o.hit("reach.leaching")
		}
		up := false
		for z := 1; z < g.N; z++ {
			if g.Q1[z] < 0 {
				up = true
			}
		}
		if up {
			o.hit("reach.upward-flow")
		}
	case "dayend":
		if zeit != o.day || !o.havePost {
			return
		}
		end := takeNSnap(g)
		if o.overwrite {
			return
		}
		// denitrification
		dAll := end.sumAll - o.lastPost.sumAll
		dProf := end.sumC1 - o.lastPost.sumC1
		den := end.denit - o.lastPost.denit
		zero := false
		for z := 0; z < 9; z++ {
			if end.c1[z] == 0 && o.lastPost.c1[z] != 0 {
				zero = true
			}
		}
		t := tol(end.sumAll, o.lastPost.sumAll, den) * 10
		if debugNaN && math.Abs(dAll+den) > t {
			fmt.Fprintf(os.Stderr, "DEBUG denit day %s N=%d den=%.9g dAll=%.9g dProf=%.9g\n pre  %v\n post %v\n", Day(zeit).ISO(), g.N, den, dAll, dProf, o.lastPost.c1[:12], end.c1[:12])
		}
		if r := dAll + den; !finite(r) {
			o.violate("finite", "non-finite-N-terms", zeit, "denitrification produced a non-finite term", nil)
		} else if r < -t {
			o.violate("denitrification", "denitrification-removed-more-than-booked", zeit, fmt.Sprintf("mineral N fell by %.12g kg/ha, denitrification booked %.12g", -dAll, den), map[string]float64{"residual": r})
		} else if r > t && !zero {
			o.violate("denitrification", "denitrification-booked-more-than-removed", zeit, fmt.Sprintf("denitrification booked %.12g kg/ha but mineral N fell by %.12g only and no layer was emptied", den, -dAll), map[string]float64{"residual": r})
		}
		if r := dProf + den; finite(r) && r > t && !zero && math.Abs(dAll+den) <= t {
			o.violate("denitrification", "denitrification-draws-on-slots-below-the-profile", zeit,
				fmt.Sprintf("denitrification booked %.12g kg/ha but only %.12g left the %d-layer profile; the rest was taken from slots below the profile", den, -dProf, g.N), map[string]float64{"residual": r, "N": float64(g.N)})
		}
		if den > 0 {
			o.hit("reach.denitrification")
		}
		// whole day, with the public counters
		dC := end.sumC1 - o.dayStart.sumC1
		in := g.DEPOS/365 + o.irrN(zeit)
		netmin := (end.ums - o.dayStart.ums) + (end.minaos - o.dayStart.minaos) + (end.minfos - o.dayStart.minfos) - (end.n2onit - o.dayStart.n2onit)
		upt := end.aufna - o.dayStart.aufna
		lea := end.outsum - o.dayStart.outsum
		dra := end.drain - o.dayStart.drain
		dn := end.denit - o.dayStart.denit
		rhs := in + netmin - upt - lea - dra - dn
		r := dC - rhs
		t = tol(end.sumC1, o.dayStart.sumC1, in, netmin, upt, lea, dra, dn, end.minaos, end.minfos, end.ums) * 20
		if finite(r) && !o.clampDay && !zero && !o.negDNDay && g.N >= 3 {
			if math.Abs(r) > t {
				cls := "day-N-created"
				if r < 0 {
					cls = "day-N-lost"
				}
				o.violate("day-balance", cls, zeit,
					fmt.Sprintf("day: mineral N changed by %.12g kg/ha; deposition+irrigation %.12g + net mineralisation incl. dissolved fertiliser %.12g - uptake %.12g - leaching %.12g - drain %.12g - denitrification %.12g = %.12g (residual %.3g)", dC, in, netmin, upt, lea, dra, dn, rhs, r),
					map[string]float64{"residual": r})
			}
		} else if finite(r) && r < -t && g.N >= 3 {
			o.violate("day-balance", "day-N-lost", zeit, fmt.Sprintf("day: %.3g kg/ha mineral N vanished (clamps may only add)", -r), map[string]float64{"residual": r})
		}
	}
}

func q1at(g *G, i int) float64 {
	if i < 0 || i >= len(g.Q1) {
		return 0
	}
	return g.Q1[i]
}

func (o *c02Oracle) Finish(out *RunOutcome, res *Result) { o.flush(res) }

func c02Profile() Profile {
	p := DefaultProfile()
	p.MaxYears = 5
	p.MinLayers = 2
	p.GWModes = []string{"soilfile", "soilfile", "polygonfile", "gwTimeSeries"}
	p.AllowMeasMid = true
	p.AllowPTF = true
	p.AllowPeat = true
	p.Storms = 0.6
	p.ShallowGW = 0.45
	p.LeachAtBottom = true
	return p
}

func init() {
	register(&CheckDef{
		Prop:  "C02",
		Level: "exploration",
		Gen: func(r *RNG, idx int, tier string) *Scenario {
			p := c02Profile()
			w := GenWorld(r.Sub("world", 0), p, paramTables)
			if idx%4 == 1 {
				// stratum: working drain inside a profile with shallow groundwater (capillary rise against the drain)
				n := w.Soil.N()
				w.Soil.DrainDep = r.Range(1, n)
				w.Soil.DrainFrac = float64(r.Range(1, 10)) / 10
				w.Soil.GW = r.Range(max(1, w.Soil.DrainDep-1), n+2)
				w.Cfg.GroundWater = "soilfile"
				w.GWSeries = nil
				w.Weather.Events = append(w.Weather.Events, WeatherEvent{Day: w.Start() + Day(r.Range(1, 300)), Kind: "rain", Val: float64(r.Range(40, 300))})
			}
			// stratum: two irrigation gifts of the field dated on the same day with different nitrate concentrations
			if len(w.Irr) > 0 && r.Bool(0.2) {
				w.IrrOn, w.Cfg.AutoIrr = true, false
				k := r.Intn(len(w.Irr))
				dup := w.Irr[k]
				dup.MM = r.PickI([]int{10, 15, 25, 40})
				dup.NO3 = r.PickI([]int{0, 30, 80, 150})
				if dup.NO3 == w.Irr[k].NO3 {
					dup.NO3 += 45
				}
				w.Irr = append(w.Irr[:k+1], append([]IrrEvent{dup}, w.Irr[k+1:]...)...)
			}
			return &Scenario{Prop: "C02", Kind: "single", World: w, Bug: genBug(r.Sub("bug", 0), false)}
		},
		Exec: func(sc *Scenario, env *Env) *Result {
			o := &c02Oracle{w: sc.World}
			o.init("C02")
			res, _ := runTrajectory(sc, env, nil, []Oracle{o}, nil)
			return res
		},
		Quick:    2000,
		Thorough: 60000,
		NonTrivial: func(res *Result) bool {
			return res.Status != "invalid" && res.Status != "crash" && (res.Stats["reach.leaching"] > 0 || res.Stats["reach.upward-flow"] > 0)
		},
		Rule:      "one generated world per evaluation (>= 2 layers, leaching depth = profile bottom, fertiliser/irrigation-N/tillage schedules, drains, all groundwater regimes), run by the real session.Run; the N balance is evaluated at every sub-step around the N routine, around denitrification and over the whole day with the public counters; non-trivial = the run leached N or had upward water flow inside the profile; distinct = hash of world+buggify spec",
		ReachKeys: []string{"reach.leaching", "reach.upward-flow", "reach.drain-active", "reach.drain-with-upward-flow", "reach.denitrification", "reach.irrigation-n", "reach.clamp-gain", "bug.days"},
		Assumptions: []string{
			"probes read the model state through the verif hooks (guarded, add-only)",
			"leaching depth = profile bottom, fertiliser prediction and automatic management off (as the property's quantifier states); measurement-overwrite days excluded",
			"a positive residual is tolerated only in a sub-step after which some layer sits exactly on the non-negativity clamp",
		},
	})
}
