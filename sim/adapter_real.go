//go:build !nodispatch

package main

import "github.com/zalf-rpm/Hermes2Go/hermes"

// The one place where the simulator calls the shipped (unexported) batch dispatcher. If a change to the repository
// alters this signature the worker is built a second time with the tag nodispatch (scripts/build.sh): checks that need
// the dispatcher in the bubble then stop with exit 2, the partitioning check still decides through the shipped binary.
const dispatcherAvailable = true

func callDispatcher(session *hermes.HermesSession, root string, startLine, endLine int, writeLog bool, lines []string) {
	doConcurrentBatchRun(session, root, startLine, endLine, writeLog, lines)
}
