package main

// C06 — water content within physical bounds, state finite.
// C08 — actual ET <= potential ET <= cap; uptake only in rooted layers above groundwater.
// C19 — soil temperature within the envelope of its boundary temperatures.

import (
	"bytes"
	"fmt"
	"math"

	"github.com/zalf-rpm/Hermes2Go/hermes"
)

// ---------------------------------------------------------------- C06

type c06Oracle struct {
	obase
	w         *World
	above     [21]bool
	have      bool
	overwrite bool
	lastW     [21]float64
	day       int
	walks     int
}

func maxCaps(g *G) float64 {
	m := 0.0
	for _, c := range g.CAPS {
		if c > m {
			m = c
		}
	}
	return m
}

func (o *c06Oracle) Probe(pt string, zeit, subd int, wdt float64, g *G, w *hermes.WaterSharedVars, n *hermes.NitroSharedVars, c *hermes.CropSharedVars) {
	switch pt {
	case "daystart":
		o.day = zeit
		o.overwrite = zeit == int(o.w.Meas.Day) || zeit == g.MESS[g.MZ-1]
	case "water.post":
		// after every sub-step: finite, and never above field capacity + this sub-step's capillary increment
		capInc := maxCaps(g)*wdt + 1e-12
		for i := 0; i < g.N; i++ {
			v := g.WG[1][i]
			if !finite(v) {
				o.violate("finite", "non-finite-water-content", zeit, fmt.Sprintf("sub-step %d: water content of layer %d is %v", subd, i+1, v), nil)
				return
			}
			if v > g.W[i]+capInc+tol(v, g.W[i]) {
				o.violate("upper-bound", "water-content-above-field-capacity-plus-capillary-rise", zeit,
					fmt.Sprintf("sub-step %d: layer %d holds %.12g but field capacity is %.12g (pore volume %.12g, groundwater at %.4g dm) and the largest tabulated capillary increment of the sub-step is %.6g", subd, i+1, v, g.W[i], g.PORGES[i], g.GRW, capInc),
					map[string]float64{"wg": v, "w": g.W[i], "layer": float64(i + 1)})
				return
			}
		}
		if subd > 1 {
			o.hit("reach.substep-bounds")
		}
	case "dayend":
		if zeit != o.day {
			return
		}
		capInc := maxCaps(g)
		for i := 0; i < g.N; i++ {
			v := g.WG[1][i]
			lim := g.WMIN[i] / 3
			if !finite(v) {
				o.violate("finite", "non-finite-water-content", zeit, fmt.Sprintf("water content of layer %d is %v at day end", i+1, v), nil)
				return
			}
			if o.have && o.above[i] && !o.overwrite && g.WMIN[i] == o.lastW[i] && v < lim-tol(v, lim) {
				o.violate("lower-bound", "water-content-below-dryness-limit", zeit,
					fmt.Sprintf("layer %d dried to %.12g, below the evaporation dryness limit %.12g (wilting point/3), although it was above it the day before", i+1, v, lim),
					map[string]float64{"wg": v, "limit": lim, "layer": float64(i + 1)})
			}
			if v > g.W[i]+capInc+tol(v, g.W[i]) {
				o.violate("upper-bound", "water-content-above-field-capacity-plus-capillary-rise", zeit,
					fmt.Sprintf("day end: layer %d holds %.12g, field capacity %.12g, largest tabulated capillary increment %.6g", i+1, v, g.W[i], capInc), map[string]float64{"wg": v, "w": g.W[i], "layer": float64(i + 1)})
			}
			o.above[i] = v >= lim
			o.lastW[i] = g.WMIN[i]
			if v <= lim+1e-9 {
				o.hit("reach.at-dryness-limit")
			}
			if v >= g.W[i]-1e-12 {
				o.hit("reach.at-field-capacity")
			}
			if v > g.W[i]+1e-12 {
				o.hit("reach.above-field-capacity")
			}
			if float64(i+1) > g.GRW {
				o.hit("reach.layer-below-groundwater")
			}
		}
		o.have = true
		// complete state finite: full reflection walk on a rotating subset of days (NaN is sticky in the state), cheap scan otherwise
		if zeit%11 == 0 || zeit == int(o.w.Cfg.End) {
			o.walks++
			for _, st := range []struct {
				name string
				v    interface{}
			}{{"global", g}, {"water", w}, {"nitro", n}, {"crop", c}} {
				if p, f, ok := firstNonFinite(st.v); ok {
					o.violate("finite", "non-finite-state:"+st.name+fieldOf(p), zeit, fmt.Sprintf("state variable %s%s is %v", st.name, p, f), nil)
					break
				}
			}
		}
	}
}

func fieldOf(p string) string {
	for i := 1; i < len(p); i++ {
		if p[i] == '[' || p[i] == '.' {
			return p[:i]
		}
	}
	return p
}

func (o *c06Oracle) Finish(out *RunOutcome, res *Result) {
	// no NaN or infinity in any output of the run
	if out != nil && out.Disk != nil {
		for _, p := range out.Disk.Paths() {
			d := out.Disk.Get(p).Data
			for _, pat := range []string{"NaN", "Inf"} {
				if k := bytes.Index(d, []byte(pat)); k >= 0 {
					line := 1 + bytes.Count(d[:k], []byte("\n"))
					o.violate("finite", "non-finite-output", 0, fmt.Sprintf("result file %s contains %q (line %d: %q)", p[len(p)-min(len(p), 30):], pat, line, snippet(d, k)), nil)
					break
				}
			}
		}
	}
	o.addStat("state.walks", float64(o.walks))
	o.flush(res)
}

// wideOutputCfg echoes a broad set of state variables so that non-finite values show in the public output as well.
func wideOutputCfg() *OutputCfg {
	oc := defaultOutputCfg()
	for _, v := range []string{"ETA", "VERDUNST", "SICKER", "CAPSUM", "OUTSUM", "AUFNASUM", "PESUM", "OBMAS", "LAI", "GEHOB", "WUGEH", "TRREL", "REDUK", "CUMDENIT", "N2Odencum", "N2onitsum", "DRAINLOSS", "DRAISUM", "NFIXSUM", "MINSUM", "ASPOO", "HARVEST", "AvgTSoil", "ET0", "DSUMM", "UMS"} {
		oc.Daily = append(oc.Daily, OutCol{Var: v})
	}
	for i := 0; i < 20; i += 3 {
		oc.Daily = append(oc.Daily, OutCol{Var: "C1", I1: i}, OutCol{Var: "TD", I1: i})
		oc.Daily = append(oc.Daily, OutCol{Var: "WG", I1: 1, I2: i})
	}
	oc.Yearly = append(oc.Yearly, OutCol{Var: "PerY"}, OutCol{Var: "SWCY1"}, OutCol{Var: "SOC1"}, OutCol{Var: "CUMDENIT"}, OutCol{Var: "N2Odencum"})
	return &oc
}

// ---------------------------------------------------------------- C08

type c08Oracle struct {
	obase
	w      *World
	verd0  float64
	pot    float64
	day    int
	wg0    [21]float64
	bareBy bool
}

func (o *c08Oracle) cropAround(zeit int) bool {
	for i := 1; i < len(o.w.Rot); i++ {
		e := o.w.Rot[i]
		lo, hi := int(e.Sow), int(e.Harvest)
		s1, _, h2 := o.w.AutoWindows(i)
		if o.w.Cfg.AutoSow && int(s1) < lo {
			lo = int(s1)
		}
		if o.w.Cfg.AutoHarvest && int(h2) > hi {
			hi = int(h2)
		}
		if zeit >= lo && zeit <= hi+1 {
			return true
		}
	}
	return false
}

func (o *c08Oracle) Probe(pt string, zeit, subd int, wdt float64, g *G, w *hermes.WaterSharedVars, n *hermes.NitroSharedVars, c *hermes.CropSharedVars) {
	switch pt {
	case "daystart":
		o.day = zeit
		o.verd0 = g.VERDUNST
	case "evatra":
		pot := g.VERDUNST - o.verd0
		o.pot = pot
		for i := 0; i < g.N; i++ {
			o.wg0[i] = g.WG[0][i]
		}
		sumTP := 0.0
		for i := 0; i < g.N; i++ {
			tp := g.TP[i]
			if !finite(tp) || tp < 0 {
				o.violate("non-negative", "negative-or-non-finite-uptake", zeit, fmt.Sprintf("root water uptake of layer %d is %v", i+1, tp), nil)
				return
			}
			sumTP += tp
			if tp > 0 && float64(i+1) > math.Min(float64(g.WURZ), g.GRW) {
				o.violate("uptake-location", "uptake-outside-rooted-unsaturated-zone", zeit,
					fmt.Sprintf("layer %d takes up %.6g cm although the rooting depth is %d layers and the groundwater table is at %.4g dm", i+1, tp, g.WURZ, g.GRW),
					map[string]float64{"layer": float64(i + 1), "wurz": float64(g.WURZ), "grw": g.GRW})
			}
		}
		if !finite(pot) || !finite(g.ETA) {
			o.violate("finite", "non-finite-evapotranspiration", zeit, fmt.Sprintf("potential ET %v, actual evaporation %v", pot, g.ETA), nil)
			return
		}
		if pot < -1e-12 {
			o.violate("non-negative", "negative-potential-et", zeit, fmt.Sprintf("potential evapotranspiration of the day is %.6g cm (mean temperature %.1f, ET method %d)", pot, g.TEMP[g.TAG.Index], g.ETMETH), map[string]float64{"pot": pot})
		}
		if g.ETA < -1e-12 {
			o.violate("non-negative", "negative-actual-evaporation", zeit, fmt.Sprintf("actual evaporation of the day is %.6g cm", g.ETA), map[string]float64{"eta": g.ETA})
		}
		cap := 0.65
		if !o.cropAround(zeit) {
			cap = 0.60
			o.hit("reach.bare-day")
		}
		if pot > cap+1e-12 {
			o.violate("cap", "potential-et-above-daily-cap", zeit, fmt.Sprintf("potential ET %.6g cm exceeds the daily cap %.2f cm", pot, cap), map[string]float64{"pot": pot, "cap": cap})
		}
		if pot >= cap-1e-12 {
			o.hit("reach.cap-engaged")
		}
		if g.ETA+sumTP > pot+tol(pot, g.ETA, sumTP) {
			o.violate("actual-le-potential", "actual-et-above-potential", zeit,
				fmt.Sprintf("actual evaporation %.12g + transpiration %.12g = %.12g cm exceeds the potential ET %.12g cm", g.ETA, sumTP, g.ETA+sumTP, pot),
				map[string]float64{"eta": g.ETA, "tp": sumTP, "pot": pot})
		}
		for name, v := range map[string]float64{"TRREL": g.TRREL, "ETREL": g.ETREL} {
			if !finite(v) || v < -1e-12 || v > 1+1e-12 { // a few ulps below zero are round-off of the dryness reduction factor
				o.violate("stress-range", "stress-ratio-outside-unit-interval:"+name, zeit, fmt.Sprintf("%s = %v", name, v), nil)
			}
		}
		if sumTP > 0 {
			o.hit("reach.transpiration-day")
			if g.GRW <= float64(g.WURZ) {
				o.hit("reach.roots-at-groundwater")
			}
			if g.TRREL < 0.999 {
				o.hit("reach.water-stress")
			}
		}
		if g.RAD[g.TAG.Index] <= 0 {
			o.hit("reach.radiation-from-sunshine")
		}
	case "water.post":
		if subd != 1 {
			return
		}
		for i := 0; i < g.N; i++ {
			avail := (o.wg0[i] - g.WMIN[i]) * g.DZ.Num
			if avail < 0 {
				avail = 0
			}
			if g.TP[i] > avail+tol(avail, g.TP[i]) {
				o.violate("available-water", "uptake-above-plant-available-water", zeit,
					fmt.Sprintf("layer %d: uptake %.12g cm/d exceeds the plant-available water %.12g cm", i+1, g.TP[i], avail), map[string]float64{"layer": float64(i + 1)})
			}
			if g.TP[i] > 0 && g.TP[i] >= avail-1e-12 {
				o.hit("reach.uptake-limited-by-available-water")
			}
		}
	}
}

func (o *c08Oracle) Finish(out *RunOutcome, res *Result) { o.flush(res) }

// ---------------------------------------------------------------- C19

type c19Oracle struct {
	obase
	lo, hi float64
	have   bool
	day    int
}

func (o *c19Oracle) widen(v float64) {
	if v < o.lo {
		o.lo = v
	}
	if v > o.hi {
		o.hi = v
	}
}

func (o *c19Oracle) Probe(pt string, zeit, subd int, wdt float64, g *G, w *hermes.WaterSharedVars, n *hermes.NitroSharedVars, c *hermes.CropSharedVars) {
	switch pt {
	case "daystart":
		o.day = zeit
		if !o.have {
			// the initial profile (set by the model between the first air temperature and the lower-boundary value)
			o.lo, o.hi = math.Inf(1), math.Inf(-1)
			for i := 0; i <= g.N; i++ {
				o.widen(g.TSOIL[0][i])
			}
			o.widen(g.TBASE)
			o.have = true
		} else {
			// the layer temperatures the model carries into the day (what yesterday's output step left behind)
			for i := 0; i <= g.N; i++ {
				if v := g.TD[i]; !finite(v) || v < o.lo-tol(v, o.lo) || v > o.hi+tol(v, o.hi) {
					o.violate("envelope", "layer-temperature-outside-boundary-envelope", zeit,
						fmt.Sprintf("at the start of the day layer %d stands at %.9g degC, outside the envelope [%.9g, %.9g] of all surface and lower-boundary temperatures imposed so far", i, v, o.lo, o.hi),
						map[string]float64{"layer": float64(i), "t": v, "lo": o.lo, "hi": o.hi})
					break
				}
			}
		}
	case "water.pre":
		if subd != 1 {
			return
		}
		// the soil temperature routine has run: TD[0] is the surface value it imposed today
		surf := g.TD[0]
		if !finite(surf) {
			o.violate("finite", "non-finite-soil-temperature", zeit, fmt.Sprintf("surface temperature is %v", surf), nil)
			return
		}
		tmin, tmax := g.TMIN[g.TAG.Index], g.TMAX[g.TAG.Index]
		if tmin <= tmax {
			// surface value within the day's air temperature extremes, with the small radiation overshoot (<= 10 % of the daily range) and the albedo memory of yesterday's surface
			span := tmax - tmin
			lo, hi := math.Min(tmin, o.lo), math.Max(tmax+0.1*span, o.hi)
			if surf < lo-1e-9 || surf > hi+1e-9 {
				o.violate("surface", "surface-temperature-outside-air-extremes", zeit, fmt.Sprintf("surface temperature %.6g outside [%.6g, %.6g] (tmin %.2f tmax %.2f)", surf, lo, hi, tmin, tmax), nil)
			}
		}
		o.widen(surf)
		o.widen(g.TBASE)
		for i := 0; i <= g.N; i++ {
			v := g.TD[i]
			if !finite(v) {
				o.violate("finite", "non-finite-soil-temperature", zeit, fmt.Sprintf("temperature of layer %d is %v", i, v), nil)
				return
			}
			if v < o.lo-tol(v, o.lo) || v > o.hi+tol(v, o.hi) {
				o.violate("envelope", "layer-temperature-outside-boundary-envelope", zeit,
					fmt.Sprintf("layer %d is at %.9g degC, outside the envelope [%.9g, %.9g] of all surface and lower-boundary temperatures imposed so far (bulk density %.3g, humus %.3g, water %.3g)", i, v, o.lo, o.hi, bdAt(g, i), humAt(g, i), g.WG[0][clampI(i-1, 0, 20)]),
					map[string]float64{"layer": float64(i), "t": v, "lo": o.lo, "hi": o.hi})
				return
			}
		}
		if tmax-tmin > 25 {
			o.hit("reach.daily-swing-25K")
		}
		if surf < 0 {
			o.hit("reach.frozen-surface")
		}
	}
}

func clampI(i, lo, hi int) int {
	if i < lo {
		return lo
	}
	if i > hi {
		return hi
	}
	return i
}
func bdAt(g *G, i int) float64  { return g.BD[clampI(i-1, 0, len(g.BD)-1)] }
func humAt(g *G, i int) float64 { return g.HUMUS[clampI(i-1, 0, len(g.HUMUS)-1)] }

func (o *c19Oracle) Finish(out *RunOutcome, res *Result) { o.flush(res) }

// ---------------------------------------------------------------- registration

func wetDryProfile() Profile {
	p := DefaultProfile()
	p.MaxYears = 4
	p.GWModes = []string{"soilfile", "polygonfile", "gwTimeSeries"}
	p.AllowMeasMid = true
	p.AllowPTF = true
	p.AllowPeat = true
	p.Storms = 0.6
	p.ShallowGW = 0.45
	p.LeachAtBottom = false
	return p
}

func init() {
	register(&CheckDef{
		Prop: "C06", Level: "exploration",
		Gen: func(r *RNG, idx int, tier string) *Scenario {
			p := wetDryProfile()
			w := GenWorld(r.Sub("world", 0), p, paramTables)
			if idx%3 == 1 {
				// long droughts and heat (dry-top-soil branch, deficit passed downwards)
				d := w.Start() + Day(r.Range(0, 200))
				w.Weather.Events = append(w.Weather.Events, WeatherEvent{Day: d, Kind: "drought", Len: r.Range(60, 300)}, WeatherEvent{Day: d, Kind: "heat", Val: float64(r.Range(28, 42)), Len: r.Range(20, 120)})
			}
			if idx%7 == 5 {
				// very stony top soil: the span between field capacity and the dryness limit is smaller than a day's evaporation
				for i := range w.Soil.Horizons {
					w.Soil.Horizons[i].Stone = r.Range(65, 90)
					if i > 0 {
						w.Soil.Horizons[i].Stone = r.Range(0, 90)
					}
				}
				d := w.Start() + Day(r.Range(0, 200))
				w.Weather.Events = append(w.Weather.Events, WeatherEvent{Day: d, Kind: "drought", Len: r.Range(60, 300)}, WeatherEvent{Day: d, Kind: "heat", Val: float64(r.Range(28, 42)), Len: r.Range(20, 120)})
			}
			return &Scenario{Prop: "C06", Kind: "single", World: w, Bug: genBug(r.Sub("bug", 0), false)}
		},
		Exec: func(sc *Scenario, env *Env) *Result {
			o := &c06Oracle{w: sc.World}
			o.init("C06")
			res, _ := runTrajectory(sc, env, wideOutputCfg(), []Oracle{o}, nil)
			return res
		},
		Quick: 1600, Thorough: 48000,
		NonTrivial: func(res *Result) bool {
			return res.Status == "ok" && (res.Stats["reach.at-dryness-limit"] > 0 || res.Stats["reach.above-field-capacity"] > 0 || res.Stats["reach.layer-below-groundwater"] > 0)
		},
		Rule:      "one generated world per evaluation (all groundwater regimes, droughts, storms, irrigation, crops), run by the real session.Run; water-content bounds after every sub-step and at every day end, full reflection walk of the four state structs every 11th day and on the last day, result files scanned for NaN/Inf; non-trivial = a layer reached the dryness limit, exceeded field capacity by capillary rise, or lay below the groundwater table",
		ReachKeys: []string{"reach.at-dryness-limit", "reach.above-field-capacity", "reach.at-field-capacity", "reach.layer-below-groundwater", "reach.substep-bounds", "bug.days"},
		Assumptions: []string{
			"upper bound uses the largest entry of the capillary-rise table the run loaded (sound, not the sharpest possible bound)",
			"the dryness limit is demanded for a layer that was at or above it the day before, on days without measurement overwrite and without a change of the layer's wilting point",
		},
	})
	register(&CheckDef{
		Prop: "C08", Level: "exploration",
		Gen: func(r *RNG, idx int, tier string) *Scenario {
			p := wetDryProfile()
			p.BareProb = 0.1
			p.AllowAuto = idx%4 == 3
			w := GenWorld(r.Sub("world", 0), p, paramTables)
			if idx%3 == 0 {
				w.Cfg.Latitude = round(r.PickF([]float64{-70, -66, 66, 70, 68.5, -68.5})+r.FRange(-1, 1), 2)
				w.Weather.Lat = w.Cfg.Latitude
			}
			if idx%5 == 2 {
				d := w.Start() + Day(r.Range(0, 300))
				w.Weather.Events = append(w.Weather.Events, WeatherEvent{Day: d, Kind: "frost", Val: float64(-r.Range(18, 40)), Len: r.Range(3, 30)})
			}
			if idx%8 == 5 {
				// a perennial stand that is cut and re-established (its rooting depth starts again while the stand remains)
				perennialStand(r, w)
			}
			return &Scenario{Prop: "C08", Kind: "single", World: w, Bug: genBug(r.Sub("bug", 0), false)}
		},
		Exec: func(sc *Scenario, env *Env) *Result {
			o := &c08Oracle{w: sc.World}
			o.init("C08")
			res, _ := runTrajectory(sc, env, nil, []Oracle{o}, nil)
			return res
		},
		Quick: 2000, Thorough: 60000,
		NonTrivial: func(res *Result) bool { return res.Status == "ok" && res.Stats["reach.transpiration-day"] > 0 },
		Rule:       "one generated world per evaluation (five ET methods, latitudes to +-70 degrees incl. polar day/night, radiation missing with sunshine hours, hard frost, all shipped annual crops, shallow groundwater), run by the real session.Run; ET and uptake invariants after the evapotranspiration step and after the first water sub-step of every day; non-trivial = the run had days with transpiration",
		ReachKeys:  []string{"reach.transpiration-day", "reach.roots-at-groundwater", "reach.water-stress", "reach.cap-engaged", "reach.bare-day", "reach.radiation-from-sunshine", "reach.uptake-limited-by-available-water"},
		Assumptions: []string{
			"potential ET of a day is the day's increment of the model's cumulative potential-ET counter",
			"the 6 mm cap is demanded on days outside every sowing-harvest span of the rotation (widened to the automatic sowing window and latest harvest date under automatic management), the 6.5 mm cap everywhere",
		},
	})
	register(&CheckDef{
		Prop: "C19", Level: "exploration",
		Gen: func(r *RNG, idx int, tier string) *Scenario {
			p := wetDryProfile()
			p.MaxYears = 5
			p.ForceDaily = idx%3 != 1 // a third of the worlds with other output intervals (0, 2, 3, 7, 10 days)
			w := GenWorld(r.Sub("world", 0), p, paramTables)
			// measured bulk densities 0.8..1.9 (csv soil files carry them) and humus up to 10 %
			if idx%2 == 0 {
				w.Cfg.SoilExt = "csv"
				for i := range w.Soil.Horizons {
					w.Soil.Horizons[i].BD = round(r.FRange(0.8, 1.9), 2)
					if i > 0 && r.Bool(0.3) {
						w.Soil.Horizons[i].BD = 0 // column present, cell empty: the bulk-density class applies
					}
					if r.Bool(0.3) && w.Soil.Horizons[i].Tex[0] != 'H' && w.Cfg.PTF == 0 {
						w.Soil.Horizons[i].Corg = round(r.FRange(0, 5.8), 2)
					}
				}
			}
			// very porous horizons (organic soils: pore volume 80-92 %) parameterised by a transfer function
			if w.Cfg.PTF != 0 && r.Bool(0.3) {
				for i := range w.Soil.Horizons {
					w.Soil.Horizons[i].PS = r.Range(80, 92)
				}
			}
			// swings of 40 K within days
			for k := r.Range(1, 6); k > 0; k-- {
				d := w.Start() + Day(r.Range(0, int(w.Cfg.End-w.Start())))
				kind := r.PickS([]string{"frost", "heat"})
				v := float64(r.Range(30, 45))
				if kind == "frost" {
					v = -float64(r.Range(10, 40))
				}
				w.Weather.Events = append(w.Weather.Events, WeatherEvent{Day: d, Kind: kind, Val: v, Len: r.Range(1, 5)})
			}
			return &Scenario{Prop: "C19", Kind: "single", World: w, Bug: &BuggifySpec{Off: true}}
		},
		Exec: func(sc *Scenario, env *Env) *Result {
			o := &c19Oracle{}
			o.init("C19")
			res, _ := runTrajectory(sc, env, nil, []Oracle{o}, nil)
			return res
		},
		Quick: 2000, Thorough: 60000,
		NonTrivial: func(res *Result) bool { return res.Status == "ok" && (res.Stats["reach.frozen-surface"] > 0 || res.Stats["reach.daily-swing-25K"] > 0) },
		Rule:       "one generated world per evaluation (bulk density classes and measured values 0.8..1.9, humus 0..10 %, peat, water contents from the dryness limit to saturation, frost and heat swings), run by the real session.Run; after every run of the soil temperature routine every layer must lie inside the running envelope of the initial profile, the lower-boundary value and all surface values imposed so far; non-trivial = the run had a frozen surface",
		ReachKeys:  []string{"reach.frozen-surface"},
		Assumptions: []string{
			"the surface value is read from the state after the routine ran (not recomputed); it must itself lie within the day's air-temperature extremes widened by 10 % of the daily range and by the albedo memory of the previous surface value",
		},
	})
}
