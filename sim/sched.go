package main

// Seeded scheduler for batch scenarios. The real dispatcher
// (doConcurrentBatchRun, reached through the overlay) and the real runs execute
// inside one testing/synctest bubble; every run parks at the verif yield points
// and proceeds only when the scheduler — the bubble's root goroutine — releases
// it. synctest.Wait() provides quiescence detection.

import (
	"crypto/sha256"
	"encoding/hex"
	"fmt"
	"os"
	"sort"
	"strconv"
	"runtime"
	"strings"
	"sync"
	"sync/atomic"
	"testing"
	"testing/synctest"
	"time"

	"github.com/zalf-rpm/Hermes2Go/hermes"
)

type schedTask struct {
	id     string
	resume chan struct{}
	point  string
	detail string
	parked bool
	done   bool
	window bool // released inside an overlap window: passes through yields
	steps  int
}

type traceEv struct {
	dec  int
	task string
	n    int
	text string
}

type poolEvent struct {
	Seq  int
	Task string
	Path string
	Hash string
	Len  int
}

type Scheduler struct {
	mu        sync.Mutex
	tasks     map[string]*schedTask
	current   string
	rng       *RNG
	recRng    *RNG
	spec      *SchedSpec
	decisions []int
	trace     []traceEv // (task, point) events projected on pool and send events; ordered by (decision, task, per-task index), not by arrival
	perTask   map[string]int
	events    int
	pool      []poolEvent
	seq       int
	window    bool
	maxParked int
	fullConc  int
	abort     bool
	// fault hooks evaluated at scheduler decisions
	atDecision func(n int, s *Scheduler)
	opensBy    map[string][]string // task -> paths opened
	burstTask  string
	victim     string
	getsBy     map[string]int // run|path -> number of pooled-file Gets so far
}

func newScheduler(spec *SchedSpec) *Scheduler {
	return &Scheduler{tasks: map[string]*schedTask{}, rng: NewRNG(spec.Sub).Sub("dec", 0), recRng: NewRNG(spec.Sub).Sub("rec", 0), spec: spec, opensBy: map[string][]string{}}
}

func logIDNum(id string) int {
	n, _ := strconv.Atoi(strings.Trim(id, "[]"))
	return n
}

// Yield is installed as hermes.Verif.Yield.
func (s *Scheduler) Yield(point, logID, detail string) {
	s.mu.Lock()
	id := logID
	if id == "" {
		id = s.current
	}
	if point == "run.end" {
		if t := s.tasks[id]; t != nil {
			t.done = true
		}
		s.mu.Unlock()
		return
	}
	t := s.tasks[id]
	if t == nil {
		if point != "run.start" {
			// a hook from a goroutine we do not know (window mode or single-run use): pass through
			s.mu.Unlock()
			return
		}
		t = &schedTask{id: id, resume: make(chan struct{})}
		s.tasks[id] = t
	}
	s.events++
	if strings.HasPrefix(point, "pool") || strings.HasPrefix(point, "send") || point == "run.start" {
		if s.perTask == nil {
			s.perTask = map[string]int{}
		}
		s.perTask[id]++
		s.trace = append(s.trace, traceEv{len(s.decisions), id, s.perTask[id], id + " " + point})
	}
	if t.window || (s.window && logID == "") || (s.spec.NoPoolYield && point == "pool.get") {
		s.mu.Unlock()
		return
	}
	if point == "pool.get" {
		// a run parks at its first Gets of a path (who loads the file first, who finds it cached); a run that asks for the
		// same file again and again (the texture table on every day of a moving groundwater table: thousands of Gets)
		// parks at every 64th repeat on average, so that large batches stay inside the decision budget
		if s.getsBy == nil {
			s.getsBy = map[string]int{}
		}
		k := id + "|" + detail
		s.getsBy[k]++
		if s.getsBy[k] > 3 && s.recRng.F() >= 1.0/64 {
			s.mu.Unlock()
			return
		}
	}
	t.point, t.detail, t.parked = point, detail, true
	s.mu.Unlock()
	<-t.resume
	s.mu.Lock()
	t.parked = false
	t.steps++
	s.mu.Unlock()
}

// PoolResult is installed as hermes.Verif.PoolResult (called while the pool lock is held).
func (s *Scheduler) PoolResult(path string, data []byte) {
	h := sha256.Sum256(data)
	s.mu.Lock()
	s.seq++
	s.pool = append(s.pool, poolEvent{Seq: s.seq, Task: s.current, Path: path, Hash: hex.EncodeToString(h[:8]), Len: len(data)})
	s.mu.Unlock()
}

// diskOp is installed as SimDisk.OnOp.
func (s *Scheduler) diskOp(path, kind string, record bool) {
	if record {
		if s.window {
			return
		}
		// coin from the record stream: deterministic because exactly one run executes between decisions
		prob := s.spec.RecordP
		if kind == "write" {
			prob = s.spec.OpP
			if prob <= 0 {
				return
			}
		}
		s.mu.Lock()
		y := s.recRng.F() < prob
		s.mu.Unlock()
		if !y {
			return
		}
	}
	if kind == "open" {
		s.mu.Lock()
		if !s.window { // inside an overlap window the opener cannot be attributed
			s.opensBy[s.current] = append(s.opensBy[s.current], path)
		}
		s.mu.Unlock()
	}
	s.Yield("disk."+kind, "", path)
}

func (s *Scheduler) parkedSorted() []*schedTask {
	s.mu.Lock()
	defer s.mu.Unlock()
	var ps []*schedTask
	for _, t := range s.tasks {
		if t.parked && !t.done {
			ps = append(ps, t)
		}
	}
	sort.Slice(ps, func(i, j int) bool { return logIDNum(ps[i].id) < logIDNum(ps[j].id) })
	return ps
}

func (s *Scheduler) choose(parked []*schedTask) int {
	n := len(s.decisions)
	if n < len(s.spec.Decisions) {
		return ((s.spec.Decisions[n] % len(parked)) + len(parked)) % len(parked)
	}
	if s.spec.Decisions != nil && s.spec.Policy == "" {
		return 0 // explicit list exhausted: FIFO
	}
	switch s.spec.Policy {
	case "fifo":
		return 0
	case "lifo":
		return len(parked) - 1
	case "starve":
		if s.victim == "" {
			s.victim = parked[s.rng.Intn(len(parked))].id
		}
		cands := []int{}
		for i, t := range parked {
			if t.id != s.victim {
				cands = append(cands, i)
			}
		}
		if len(cands) == 0 {
			return 0
		}
		return cands[s.rng.Intn(len(cands))]
	case "burst":
		for i, t := range parked {
			if t.id == s.burstTask {
				return i
			}
		}
		i := s.rng.Intn(len(parked))
		s.burstTask = parked[i].id
		return i
	default:
		return s.rng.Intn(len(parked))
	}
}

func isOverlapDecision(spec *SchedSpec, n int) bool {
	for _, d := range spec.Overlap {
		if d == n {
			return true
		}
	}
	return false
}

// schedProgress counts scheduler decisions; the hang watchdog (a goroutine outside the bubble, real clock) reads it.
// batchFaultHook, when set, is called before every scheduler decision of the next RunBatch (input faults positioned in the schedule).
var batchFaultHook func(n int)

var schedProgress atomic.Int64
var schedActive atomic.Bool

const exitHang = 97

func startHangWatchdog() {
	limit := time.Duration(envInt("VERIF_HANG_S", 20)) * time.Second
	go func() {
		last, since := int64(-1), time.Now()
		for {
			time.Sleep(500 * time.Millisecond)
			if !schedActive.Load() {
				last, since = -1, time.Now()
				continue
			}
			if p := schedProgress.Load(); p != last {
				last, since = p, time.Now()
				continue
			}
			if time.Since(since) > limit {
				// no scheduler decision for a long time: a released run never reached its next hook, or it is blocked
				// on a lock that a parked run holds (quiescence detection cannot see that)
				buf := make([]byte, 4<<20)
				n := runtime.Stack(buf, true)
				os.Stderr.Write(buf[:n])
				fmt.Fprintf(os.Stderr, "\nVERIF-HANG: no scheduler progress for %v\n", limit)
				os.Exit(exitHang)
			}
		}
	}()
}

var hangWatchdogOnce sync.Once

// BatchOutcome is what a scheduled batch produced.
type BatchOutcome struct {
	Stdout      string
	Disk        *SimDisk
	Decisions   []int
	TraceHash   string
	Pool        []poolEvent
	Events      int
	MaxParked   int
	Deadlock    string
	Panic       string
	OpensBy     map[string][]string
	Aborted     bool
	Windows     int
	Tasks       int
	DecisionCap bool
	TaskIDs     []string // log ids of the runs that reached their first line (run.start hook), sorted
	Victim      *diskVictim // line whose result streams met injected write errors (excluded from summary and solo oracles)
	Excused     map[int]string // position in the batch -> why the line is exempt from the summary and solo oracles (judged by the fault's own oracle)
	AtDecision  func(n int)    // fault hook: called by the scheduler before decision n is taken
	RealDisk    bool           // outcome of the shipped binary on the real disk (not of the bubble)
	Released    []releasedAt   // per serial decision: which run was released from which yield point
	StartDec    map[string]int // run id -> decision at which the run left its first yield point (run.start), i.e. began to execute
}

// releasedAt: decision n released run Task, which was parked at Point (Detail: the path for pool.get / disk operations).
type releasedAt struct {
	Dec                 int
	Task, Point, Detail string
}

// RunBatch executes lines through the real dispatcher under the seeded scheduler.
func (e *Env) RunBatch(root string, lines []string, spec *SchedSpec, disk *SimDisk, writeLog bool, startLine, endLine int, abortAt int) *BatchOutcome {
	out := &BatchOutcome{Disk: disk}
	s := newScheduler(spec)
	if f := batchFaultHook; f != nil {
		s.atDecision = func(n int, _ *Scheduler) { f(n) }
	}
	disk.OnOp = s.diskOp
	disk.CurTask = func() string { return s.current }
	hermes.Verif = &hermes.VerifHooks{Yield: s.Yield, PoolResult: s.PoolResult}
	defer func() { hermes.Verif = nil; disk.OnOp = nil }()
	oldConc := concurrentOperations
	concurrentOperations = uint16(spec.Concurrency)
	defer func() { concurrentOperations = oldConc }()
	maxDecisions := 200000
	hangWatchdogOnce.Do(startHangWatchdog)
	schedActive.Store(true)
	defer schedActive.Store(false)

	out.Stdout = e.quiet(true, func() {
		func() {
			defer func() {
				if r := recover(); r != nil {
					msg := fmt.Sprint(r)
					if strings.Contains(msg, "deadlock") {
						out.Deadlock = msg
					} else {
						out.Panic = msg
					}
				}
			}()
			synctest.Test(theT, func(t *testing.T) {
				// the session is created inside the bubble: a channel or timer it may own then belongs to the bubble, and a
				// run that waits on it for ever counts as blocked (deadlock detection) instead of stalling quiescence
				session := hermes.NewHermesSession()
				session.HermesOutWriter = disk.Generator()
				defer session.Close()
				dispDone := false
				var dmu sync.Mutex
				go func() {
					callDispatcher(session, root, startLine, endLine, writeLog, lines)
					dmu.Lock()
					dispDone = true
					dmu.Unlock()
				}()
				for {
					synctest.Wait()
					parked := s.parkedSorted()
					if len(parked) > s.maxParked {
						s.maxParked = len(parked)
					}
					if len(parked) == 0 {
						dmu.Lock()
						d := dispDone
						dmu.Unlock()
						if !d {
							out.Deadlock = "no parked run and the dispatcher has not returned"
						}
						return
					}
					n := len(s.decisions)
					if abortAt > 0 && n >= abortAt {
						out.Aborted = true
						return // simulated crash: everything in flight is abandoned
					}
					if n >= maxDecisions {
						out.DecisionCap = true
						return
					}
					if s.atDecision != nil {
						s.atDecision(n, s)
					}
					if isOverlapDecision(spec, n) && len(parked) >= 2 {
						k := spec.OverlapK
						if k < 2 || k > len(parked) {
							k = len(parked)
						}
						s.mu.Lock()
						s.window = true
						s.decisions = append(s.decisions, -k)
						for _, t := range parked[:k] {
							t.window = true
						}
						s.mu.Unlock()
						out.Windows++
						for _, t := range parked[:k] {
							t.resume <- struct{}{}
						}
						synctest.Wait()
						s.mu.Lock()
						s.window = false
						s.mu.Unlock()
						continue
					}
					schedProgress.Add(1)
					i := s.choose(parked)
					s.mu.Lock()
					out.Released = append(out.Released, releasedAt{len(s.decisions), parked[i].id, parked[i].point, parked[i].detail})
					if parked[i].point == "run.start" {
						if out.StartDec == nil {
							out.StartDec = map[string]int{}
						}
						out.StartDec[parked[i].id] = len(s.decisions)
					}
					s.decisions = append(s.decisions, i)
					s.current = parked[i].id
					s.mu.Unlock()
					parked[i].resume <- struct{}{}
				}
			})
		}()
	})
	out.Decisions = s.decisions
	sort.SliceStable(s.trace, func(i, j int) bool {
		a, b := s.trace[i], s.trace[j]
		if a.dec != b.dec {
			return a.dec < b.dec
		}
		if a.task != b.task {
			return logIDNum(a.task) < logIDNum(b.task)
		}
		return a.n < b.n
	})
	var tl []string
	for _, e := range s.trace {
		tl = append(tl, e.text)
	}
	h := sha256.Sum256([]byte(strings.Join(tl, "\n")))
	out.TraceHash = hex.EncodeToString(h[:8])
	out.Pool = s.pool
	out.Events = s.events
	out.MaxParked = s.maxParked
	out.OpensBy = s.opensBy
	out.Tasks = len(s.tasks)
	for id := range s.tasks {
		out.TaskIDs = append(out.TaskIDs, id)
	}
	sort.Slice(out.TaskIDs, func(i, j int) bool { return logIDNum(out.TaskIDs[i]) < logIDNum(out.TaskIDs[j]) })
	return out
}

// parseDispatcher extracts what the real dispatcher printed.
type DispatcherReport struct {
	ErrorLines []string // lines of the error summary (after "Error Summary:")
	NumErrors  int
	HasCount   bool
	LogLines   []string
	Started    []string // log ids printed when a run was started (writeLog only)
}

func parseDispatcher(stdout string) DispatcherReport {
	var r DispatcherReport
	in := false
	for _, l := range strings.Split(stdout, "\n") {
		l = strings.TrimRight(l, "\r ")
		if l == "Error Summary:" {
			in = true
			continue
		}
		if strings.HasPrefix(l, "Number of errors:") {
			fmt.Sscanf(strings.TrimPrefix(l, "Number of errors:"), "%d", &r.NumErrors)
			r.HasCount = true
			in = false
			continue
		}
		if in {
			if l != "" {
				r.ErrorLines = append(r.ErrorLines, l)
			}
			continue
		}
		if len(l) > 2 && l[0] == '[' && strings.HasSuffix(l, "]") && !strings.Contains(l, " ") {
			r.Started = append(r.Started, l)
		} else if len(l) > 0 && l[0] == '[' {
			r.LogLines = append(r.LogLines, l)
		}
	}
	return r
}

var _ = os.Getenv
