package main

// Materialisation: World -> input files on a private scratch directory.

import (
	"strconv"
	"regexp"
	"fmt"
	"os"
	"path/filepath"
	"sort"
	"strings"
)

type FileSet map[string]string // relative path (from the working dir root) -> content

func (w *World) eol() string {
	if w.CRLF {
		return "\r\n"
	}
	return "\n"
}

func boolInt(b bool) int {
	if b {
		return 1
	}
	return 0
}

// ConfigYAML renders config.yml; omit lists keys to leave out (C14).
func (w *World) ConfigYAML(omit map[string]bool) string {
	c := &w.Cfg
	var b strings.Builder
	kv := func(k string, v interface{}) {
		if omit[k] {
			return
		}
		switch x := v.(type) {
		case string:
			fmt.Fprintf(&b, "%s: \"%s\"\n", k, x)
		default:
			fmt.Fprintf(&b, "%s: %v\n", k, x)
		}
	}
	kv("Dateformat", rawYAML(c.DateFormat))
	kv("DivideCentury", c.DivideCentury)
	kv("GroundWaterFrom", rawYAML(c.GroundWater))
	kv("ResultFileFormat", c.ResultFormat)
	if c.ResultExt != "" {
		kv("ResultFileExt", c.ResultExt)
	}
	kv("OutputIntervall", c.OutInterval)
	kv("ManagementEvents", c.MgmtEvents)
	kv("InitSelection", c.InitSelection)
	kv("SoilFile", "soil")
	kv("SoilFileExtension", c.SoilExt)
	kv("CropFileFormat", c.CropFileFormat)
	kv("CropParameterFormat", c.CropParamFmt)
	kv("MeasurementFileFormat", c.MeasFmt)
	kv("PolygonGridFileName", "poly")
	kv("WeatherFile", weatherFileTemplate(c.WeatherLayout))
	kv("WeatherFileFormat", c.WeatherLayout)
	kv("WeatherFolder", "wx")
	kv("WeatherRootFolder", "./weather/")
	kv("WeatherNoneValue", c.NoneValue)
	kv("WeatherNumHeader", c.NumHeader)
	kv("CorrectionPrecipitation", boolInt(c.Preco))
	kv("AnnualAverageTemperature", c.TBase)
	kv("ETpot", c.ETpot)
	kv("CO2method", c.CO2method)
	kv("CO2concentration", c.CO2conc)
	kv("CO2StomataInfluence", boolInt(c.CO2Stomata))
	kv("NDeposition", c.NDeposition)
	kv("StartYear", c.StartYear)
	kv("EndDate", FmtDate(c.End, c.DateFormat))
	kv("AnnualOutputDate", FmtDayMonth(c.AnnualM, c.AnnualD, c.DateFormat))
	if c.Prognose > 0 {
		kv("VirtualDateFertilizerPrediction", FmtDate(c.Prognose, c.DateFormat))
	} else {
		kv("VirtualDateFertilizerPrediction", "--------")
	}
	kv("Latitude", c.Latitude)
	kv("Altitude", c.Altitude)
	kv("CoastDistance", c.CoastDist)
	kv("PTF", c.PTF)
	kv("LeachingDepth", c.LeachDepth)
	kv("OrganicMatterMineralProportion", c.OrgMinProp)
	kv("KcFactorBareSoil", c.KcBare)
	if c.PotMin != 0 {
		kv("PotMineralisation", c.PotMin)
	}
	kv("GroundWaterPhase", c.GWPhase)
	kv("Fertilization", c.Fertilization)
	kv("AutoSowingHarvest", boolInt(c.AutoSow))
	kv("AutoFertilization", boolInt(c.AutoFert))
	kv("AutoIrrigation", boolInt(c.AutoIrr))
	kv("AutoHarvest", boolInt(c.AutoHarvest))
	return b.String()
}

type rawYAML string

func (r rawYAML) String() string { return string(r) }

func pad(s string, n int) string {
	for len(s) < n {
		s += " "
	}
	return s
}

// soilLineTxt renders one fixed-width horizon line (72 columns).
func soilLineTxt(s *Soil, i int, withGW bool) string {
	h := s.Horizons[i]
	b := []byte(strings.Repeat(" ", 72))
	put := func(pos int, str string) { copy(b[pos:], str) }
	put(0, s.ID)
	put(4, fmt.Sprintf("%4.2f", h.Corg))
	if h.Corg >= 10 {
		put(4, fmt.Sprintf("%4.1f", h.Corg))
	}
	put(9, pad(strings.TrimSpace(h.Tex), 3))
	put(13, fmt.Sprintf("%02d", h.Depth))
	put(16, fmt.Sprintf("%d", h.LD))
	put(18, fmt.Sprintf("%02d", h.Stone))
	if h.CN > 0 {
		put(21, fmt.Sprintf("%-3d", h.CN))
	} else {
		put(21, "0  ")
	}
	put(29, "00")
	if i == 0 {
		put(32, fmt.Sprintf("%02d", s.RootDepth))
		put(35, fmt.Sprintf("%02d", len(s.Horizons)))
	}
	if h.FC > 0 {
		put(40, fmt.Sprintf("%02d", h.FC))
		put(43, fmt.Sprintf("%02d", h.WP))
	}
	if h.PS > 0 {
		put(46, fmt.Sprintf("%02d", h.PS))
	}
	if h.Sand+h.Silt+h.Clay > 0 {
		put(49, fmt.Sprintf("%02d", h.Sand))
		put(52, fmt.Sprintf("%02d", h.Silt))
		put(55, fmt.Sprintf("%02d", h.Clay))
	}
	put(58, "00")
	put(62, fmt.Sprintf("%02d", s.DrainDep))
	put(67, fmt.Sprintf("%3.1f", s.DrainFrac))
	if i == 0 && withGW {
		put(70, fmt.Sprintf("%02d", s.GW))
	}
	return strings.TrimRight(string(b), " ")
}

func soilHeaderTxt() string {
	return "SID Corg Te  lb B St C/N C/S Hy Rd NuHo  FC WP PS S% SI% C% lamda DraiT  Drai% GW LBG"
}

var soilCSVCols = []string{"SID", "C_org", "Texture", "LayerDepth", "BulkDensityClass", "Stone", "C/N", "C/S", "RootDepth", "NumberHorizon", "FieldCapacity", "WiltingPoint", "PoreVolume", "Sand", "Silt", "Clay", "DrainageDepth", "Drainage%", "GroundWaterLevel"}

func soilLineCSV(s *Soil, i int, withBD bool) string {
	h := s.Horizons[i]
	opt := func(v int) string {
		if v == 0 {
			return ""
		}
		return fmt.Sprintf("%02d", v)
	}
	f := []string{s.ID, fmt.Sprintf("%.2f", h.Corg), strings.TrimSpace(h.Tex), fmt.Sprintf("%02d", h.Depth), fmt.Sprint(h.LD)}
	if withBD {
		if h.BD > 0 {
			f = append(f, fnum(h.BD))
		} else {
			f = append(f, "")
		}
	}
	cn := fmt.Sprint(h.CN)
	f = append(f, fmt.Sprintf("%02d", h.Stone), cn, "00")
	if i == 0 {
		f = append(f, fmt.Sprintf("%02d", s.RootDepth), fmt.Sprintf("%02d", len(s.Horizons)))
	} else {
		f = append(f, "", "")
	}
	if h.FC > 0 {
		f = append(f, opt(h.FC), opt(h.WP))
	} else {
		f = append(f, "", "")
	}
	f = append(f, opt(h.PS))
	if h.Sand+h.Silt+h.Clay > 0 {
		f = append(f, fmt.Sprintf("%02d", h.Sand), fmt.Sprintf("%02d", h.Silt), fmt.Sprintf("%02d", h.Clay))
	} else {
		f = append(f, "", "", "")
	}
	f = append(f, fmt.Sprintf("%02d", s.DrainDep), fmt.Sprintf("%3.1f", s.DrainFrac))
	if i == 0 {
		f = append(f, fmt.Sprintf("%02d", s.GW))
	} else {
		f = append(f, "   ")
	}
	return strings.Join(f, ",")
}

func (w *World) soilHasBD() bool {
	for _, h := range w.Soil.Horizons {
		if h.BD > 0 {
			return true
		}
	}
	return false
}

// decoySoil is a small valid profile with another id placed around the real one.
func decoySoil(id string) Soil {
	return Soil{ID: id, RootDepth: 8, DrainDep: 99, DrainFrac: 0, GW: 99, Horizons: []Horizon{{Corg: 1.1, Tex: "SL3", Depth: 3, LD: 2, CN: 10, FC: 24, WP: 10, PS: 40, Sand: 60, Silt: 25, Clay: 15}, {Corg: 0.3, Tex: "SL3", Depth: 12, LD: 3, CN: 10, FC: 22, WP: 9, PS: 38, Sand: 60, Silt: 25, Clay: 15}}}
}

func (w *World) SoilFile() (name, content string) {
	e := w.eol()
	var b strings.Builder
	soils := []Soil{}
	if w.Decoys > 0 {
		soils = append(soils, decoySoil("9Z1"))
	}
	soils = append(soils, w.Soil)
	if w.Decoys > 1 {
		soils = append(soils, decoySoil("9Z2"))
	}
	if w.Alt != 0 {
		// a second profile of the same horizons under another id (selected by soilId= on the line): other groundwater
		// level (another class of the field-capacity supplement), other drain
		a := w.Soil
		a.Horizons = append([]Horizon{}, w.Soil.Horizons...)
		a.ID = "9A1"
		n := a.N()
		if w.Soil.GW > n+2 {
			a.GW = 2 + int(w.Alt%uint64(max(n-1, 1)))
		} else {
			a.GW = 99
		}
		if a.DrainDep <= n {
			a.DrainDep = 21
		} else if n >= 3 {
			a.DrainDep, a.DrainFrac = max(n-2, 1), 0.4
		}
		soils = append(soils, a)
	}
	if w.BadEnt {
		bt := decoySoil("8T1")
		bt.Horizons[0].Tex, bt.Horizons[1].Tex = "XQ7", "XQ7"
		bf := decoySoil("8F1")
		for i := range bf.Horizons {
			bf.Horizons[i].Sand, bf.Horizons[i].Silt, bf.Horizons[i].Clay = 10, 10, 10
		}
		soils = append(soils, bt, bf)
	}
	if w.Cfg.SoilExt == "csv" {
		cols := append([]string{}, soilCSVCols...)
		bd := w.soilHasBD()
		if bd {
			cols = append(cols[:5], append([]string{"BulkDensity"}, cols[5:]...)...)
		}
		// the reader finds its columns by name: every project may list them in an order of its own (a rotation of the
		// standard order with the id column kept first, chosen by the project's name)
		rot := 0
		for _, ch := range w.Loc {
			rot += int(ch)
		}
		rot = rot % 4 * 3 // 0, 3, 6 or 9 places
		permute := func(f []string) []string {
			if rot == 0 || len(f) < 4 {
				return f
			}
			rest := f[1:]
			k := rot % len(rest)
			return append([]string{f[0]}, append(append([]string{}, rest[k:]...), rest[:k]...)...)
		}
		b.WriteString(strings.Join(permute(cols), ",") + e)
		for si := range soils {
			for i := range soils[si].Horizons {
				f := strings.Split(soilLineCSV(&soils[si], i, bd), ",")
				for len(f) < len(cols) {
					f = append(f, "")
				}
				b.WriteString(strings.Join(permute(f), ",") + e)
			}
		}
		return "soil_" + w.Loc + ".csv", b.String()
	}
	b.WriteString(soilHeaderTxt() + e)
	for si := range soils {
		for i := range soils[si].Horizons {
			b.WriteString(soilLineTxt(&soils[si], i, true) + e)
		}
	}
	return "soil_" + w.Loc + ".txt", b.String()
}

// earlyFieldDays: by how many days the extra field EARLYFLD (plot 19003) starts before the main field; 0 = not built
// (one-file-per-year layout, which has no "series begins mid-year" case, or a start too close to 1 January).
func (w *World) earlyFieldDays() int {
	if !w.BadEnt || w.Cfg.WeatherLayout == 0 {
		return 0
	}
	k := w.Start().YearDay() - 1
	if k > 20 {
		k = 20
	}
	return k
}

func (w *World) PolyFile() string {
	e := w.eol()
	var b strings.Builder
	b.WriteString("Polyg SID  Field_ID  GH GL Ir comment" + e)
	if w.Decoys > 0 {
		b.WriteString("00001 9Z1 ZZDECOY   99 99 0 decoy" + e)
	}
	fmt.Fprintf(&b, "%s %s %s %02d %02d %d generated%s", w.Plot, w.Soil.ID, pad(w.Field, 9), w.GWHi, w.GWLo, boolInt(w.IrrOn), e)
	if w.Decoys > 1 {
		b.WriteString("00002 9Z2 ZZDECOY2  99 99 1 decoy" + e)
	}
	if w.BadEnt {
		fmt.Fprintf(&b, "19001 %s %s %02d %02d %d unknown field%s", w.Soil.ID, pad("NOFIELD", 9), w.GWHi, w.GWLo, 0, e)
		fmt.Fprintf(&b, "19002 %s %s %02d %02d %d tillage inside crop%s", w.Soil.ID, pad("TILLBAD", 9), w.GWHi, w.GWLo, 0, e)
		if w.earlyFieldDays() > 0 {
			fmt.Fprintf(&b, "19003 %s %s %02d %02d %d starts before the late weather series%s", w.Soil.ID, pad("EARLYFLD", 9), w.GWHi, w.GWLo, 0, e)
		}
	}
	b.WriteString("end" + e)
	return b.String()
}

func (w *World) RotationFile() (name, content string) {
	e := w.eol()
	df := w.Cfg.DateFormat
	var b strings.Builder
	line := func(field string, r RotEntry, csv bool) string {
		if csv {
			return fmt.Sprintf("%s,%s,%s,%s,%03d,%03d,%d,%s,", field, pad(r.Crop, 3), FmtDate(r.Sow, df), FmtDate(r.Harvest, df), r.Rex, r.Yld, r.AutOrg, r.Variety)
		}
		return strings.TrimRight(fmt.Sprintf("%s %s %s %s %03d %03d %d %s", pad(field, 9), pad(r.Crop, 3), FmtDate(r.Sow, df), FmtDate(r.Harvest, df), r.Rex, r.Yld, r.AutOrg, r.Variety), " ")
	}
	csv := w.Cfg.CropFileFormat == "csv"
	if csv {
		b.WriteString("Field_ID,crop,sowing,harvest,Rex,yld,autorg,variety,comment" + e)
	} else {
		b.WriteString("Field_ID    crp  sowing harvst Rex yld autorg variety comment" + e)
	}
	decoy := RotEntry{Crop: "WW", Sow: w.Start() - 300, Harvest: w.Start() - 20, Rex: 100, Yld: 50}
	if w.Decoys > 0 {
		b.WriteString(line("ZZDECOY", decoy, csv) + e)
	}
	for i, r := range w.Rot {
		if i > 0 && w.CropAlias != nil {
			if a, ok := w.CropAlias[r.Crop]; ok {
				r.Crop, r.Variety = a, ""
			}
		}
		b.WriteString(line(w.Field, r, csv) + e)
		if w.Decoys > 1 && i == len(w.Rot)/2 && i < len(w.Rot)-1 {
			// another field's entry between the entries of this field (files grown by appending period after period)
			b.WriteString(line("ZZDECOY3", decoy, csv) + e)
		}
	}
	if w.Decoys > 1 {
		b.WriteString(line("ZZDECOY2", decoy, csv) + e)
	}
	if w.BadEnt {
		for _, r := range w.Rot {
			b.WriteString(line("TILLBAD", r, csv) + e)
		}
		if k := w.earlyFieldDays(); k > 0 {
			// the same rotation on a field whose simulation starts k days earlier (still inside the start year)
			for i, r := range w.Rot {
				if i == 0 {
					r.Harvest -= Day(k)
					if r.Sow >= r.Harvest {
						r.Sow = r.Harvest - 60
					}
				}
				b.WriteString(line("EARLYFLD", r, csv) + e)
			}
		}
	}
	if csv {
		return "crop_" + w.Loc + ".csv", b.String()
	}
	return "crop_" + w.Loc + ".txt", b.String()
}

func (w *World) FertFile() string {
	e := w.eol()
	df := w.Cfg.DateFormat
	var b strings.Builder
	b.WriteString("Field_ID  N   Frt date" + e)
	if w.Decoys > 0 {
		fmt.Fprintf(&b, "%s %03d %s %s%s", pad("ZZDECOY", 9), 100, pad("KAS", 3), FmtDate(w.Start()+30, df), e)
	}
	for k, f := range w.Fert {
		fmt.Fprintf(&b, "%s %03d %s %s%s", pad(w.Field, 9), f.Amt, pad(f.Type, 3), FmtDate(f.Day, df), e)
		if w.Decoys > 1 && k%3 == 1 {
			// another field's line between the lines of this field (files sorted by date rather than by field)
			fmt.Fprintf(&b, "%s %03d %s %s%s", pad("ZZDECOY2", 9), 90, pad("KAS", 3), FmtDate(f.Day, df), e)
		}
	}
	b.WriteString("end" + e)
	return b.String()
}

func (w *World) IrrFile() string {
	e := w.eol()
	df := w.Cfg.DateFormat
	var b strings.Builder
	b.WriteString("Field_ID  Ir N03 date" + e)
	b.WriteString("          mm mg/l " + e)
	for k, f := range w.Irr {
		fmt.Fprintf(&b, "%s %3d %3d %s%s", pad(w.Field, 9), f.MM, f.NO3, FmtDate(f.Day, df), e)
		if w.Decoys > 1 && k%3 == 1 {
			fmt.Fprintf(&b, "%s %3d %3d %s%s", pad("ZZDECOY2", 9), 25, 10, FmtDate(f.Day, df), e)
		}
	}
	if w.Decoys > 0 {
		fmt.Fprintf(&b, "%s %3d %3d %s%s", pad("ZZDECOY", 9), 15, 20, FmtDate(w.Start()+30, df), e)
	}
	b.WriteString("end" + e)
	return b.String()
}

func (w *World) TillFile() string {
	e := w.eol()
	df := w.Cfg.DateFormat
	var b strings.Builder
	b.WriteString("Field_ID  Ti Typ date" + e)
	b.WriteString("          cm" + e)
	if w.Decoys > 0 {
		fmt.Fprintf(&b, "%s %3d %d   %s%s", pad("ZZDECOY", 9), 30, 1, FmtDate(w.Start()+40, df), e)
	}
	for k, f := range w.Till {
		fmt.Fprintf(&b, "%s %3d %d   %s%s", pad(w.Field, 9), f.Depth, f.Type, FmtDate(f.Day, df), e)
		if w.Decoys > 1 && k%3 == 1 {
			fmt.Fprintf(&b, "%s %3d %d   %s%s", pad("ZZDECOY2", 9), 15, 1, FmtDate(f.Day, df), e)
		}
	}
	if w.BadEnt && len(w.Rot) > 1 {
		mid := w.Rot[1].Sow + (w.Rot[1].Harvest-w.Rot[1].Sow)/2
		fmt.Fprintf(&b, "%s %3d %d   %s%s", pad("TILLBAD", 9), 20, 1, FmtDate(mid, df), e)
	}
	return b.String()
}

func (w *World) measIdent() string {
	switch w.Cfg.InitSelection {
	case 1:
		return "ALLE"
	case 2:
		return w.Field
	case 3:
		return w.Plot
	default:
		return w.Soil.ID
	}
}

func (w *World) MeasFile() (name, content string) {
	name, content = w.measFileOf(w.Meas, true)
	if w.Meas.Again > 0 {
		// a second sampling of the same plot further down the file
		m2 := w.Meas
		m2.Day += Day(w.Meas.Again)
		if lo, hi := w.DateWindow(); m2.Day > hi-2 || m2.Day < lo {
			return name, content
		}
		for i := range m2.Nmin {
			m2.Nmin[i] = (m2.Nmin[i] + 23) % 90
		}
		for i := range m2.Water {
			m2.Water[i] = round(m2.Water[i]*0.8, 3)
		}
		_, second := w.measFileOf(m2, false)
		e := w.eol()
		if strings.HasSuffix(name, ".csv") {
			content += second
		} else {
			content = strings.TrimSuffix(content, "end"+e) + second + "end" + e
		}
	}
	return name, content
}

// measFileOf renders the measurement file with one row (header = false: the row only).
func (w *World) measFileOf(m Measurement, header bool) (name, content string) {
	e := w.eol()
	df := w.Cfg.DateFormat
	id := w.measIdent()
	var b strings.Builder
	if w.Cfg.MeasFmt == "csv" {
		if header {
			b.WriteString("Id,Date,Nmin0-3,Nmin3-6,Nmin6-9,Nmin9-12,Nmin12-15,Nmin15-20,M,Water0-3,Water3-6,Water6-9,Water9-12,Water12-15,Water15-20" + e)
		}
		if m.Short {
			fmt.Fprintf(&b, "%s,%s,%d,%d,%d,,,,%d,%.3f,%.3f,%.3f,,,%s", id, FmtDate(m.Day, df), m.Nmin[0], m.Nmin[1], m.Nmin[2], m.Mode, m.Water[0], m.Water[1], m.Water[2], e)
		} else {
			fmt.Fprintf(&b, "%s,%s,%d,%d,%d,%d,%d,%d,%d,%.3f,%.3f,%.3f,%.3f,%.3f,%.3f%s", id, FmtDate(m.Day, df), m.Nmin[0], m.Nmin[1], m.Nmin[2], m.Nmin[3], m.Nmin[4], m.Nmin[5], m.Mode, m.Water[0], m.Water[1], m.Water[2], m.Water[3], m.Water[4], m.Water[5], e)
		}
		return "endit_" + w.Loc + ".csv", b.String()
	}
	if m.Short {
		if header {
			b.WriteString("Plot_ID   Date     Nm03 Nm36 Nm69 M W0_3  W3_6  W6_9" + e)
		}
		fmt.Fprintf(&b, "%s %s %04d %04d %04d %d %.3f %.3f %.3f%s", pad(id, 9), FmtDate(m.Day, df), m.Nmin[0], m.Nmin[1], m.Nmin[2], m.Mode, m.Water[0], m.Water[1], m.Water[2], e)
		if header {
			b.WriteString("end" + e)
		}
		return "endit_" + w.Loc + ".txt", b.String()
	}
	if header {
		b.WriteString("Plot_ID   Date     Nm03 Nm36 Nm69 M W0_3  W3_6  W6_9  NM9-12 NM12-15 NM15-20  W9-12 W12-15 W15-20" + e)
	}
	fmt.Fprintf(&b, "%s %s %04d %04d %04d %d %.3f %.3f %.3f %04d   %04d    %04d     %.3f %.3f  %.3f%s", pad(id, 9), FmtDate(m.Day, df), m.Nmin[0], m.Nmin[1], m.Nmin[2], m.Mode, m.Water[0], m.Water[1], m.Water[2], m.Nmin[3], m.Nmin[4], m.Nmin[5], m.Water[3], m.Water[4], m.Water[5], e)
	if header {
		b.WriteString("end" + e)
	}
	return "endit_" + w.Loc + ".txt", b.String()
}

func (a *AutoLine) render(df string) string {
	b := []byte(strings.Repeat(" ", 181))
	put := func(pos int, s string) { copy(b[pos:], s) }
	put(0, pad(a.Crop, 3))
	put(4, FmtDayMonth(a.Sow1M, a.Sow1D, df))
	put(9, FmtDayMonth(a.Sow2M, a.Sow2D, df))
	put(14, FmtDayMonth(a.Har2M, a.Har2D, df))
	put(19, fmt.Sprintf("%-5.1f", a.TS))
	if a.TSIsMax {
		put(24, "x")
	}
	put(25, fmt.Sprintf("%5.1f", a.SMoMin))
	put(32, fmt.Sprintf("%-5.1f", a.SMoMax))
	put(39, fmt.Sprintf("%-5.1f", a.HMoMin))
	put(46, fmt.Sprintf("%-5.1f", a.HMoMax))
	put(53, fmt.Sprintf("%-4.1f", a.RainLim))
	put(60, fmt.Sprintf("%-4.1f", a.RainAct))
	put(68, fmt.Sprintf("%-3d", a.TAccu))
	put(74, fmt.Sprintf("%-2d", a.TBase))
	put(80, fmt.Sprintf("%d", a.IrrSt1))
	put(87, fmt.Sprintf("%d", a.IrrSt2))
	put(94, fmt.Sprintf("%-3d", a.NDem1))
	put(100, fmt.Sprintf("%-3d", a.NDem2))
	put(106, fmt.Sprintf("%-3d", a.NDem3))
	put(112, pad(a.St1, 3))
	put(119, pad(a.St2, 3))
	put(127, pad(a.St3, 3))
	put(135, fmt.Sprintf("%-2d", a.TWindow))
	put(143, pad(a.OrgF, 3))
	put(149, fmt.Sprintf("%-3d", a.OrgAmt))
	put(156, pad(a.App, 3))
	put(163, fmt.Sprintf("%-3d", a.IrrLow))
	put(170, fmt.Sprintf("%-3d", a.IrrDep))
	put(177, fmt.Sprintf("%-3d", a.IrrMax))
	return string(b)
}

func (w *World) AutoFile() string {
	e := w.eol()
	var b strings.Builder
	b.WriteString("crp Sow1 Sow2 har2 TSmin Smomin Smomax Hmomin Hmomax Rainav Rainact TACCU Tbase Irrdv1 Irrdv2 Ndem1 Ndem2 Ndem3 stage1 stage 2 stage 3 Twindow orgF  amount appdat Irrlow irrdep irrmax    " + e)
	for i := range w.Auto {
		b.WriteString(w.Auto[i].render(w.Cfg.DateFormat) + e)
		if a, ok := w.CropAlias[w.Auto[i].Crop]; ok {
			al := w.Auto[i]
			al.Crop = a
			b.WriteString(al.render(w.Cfg.DateFormat) + e)
		}
	}
	return b.String()
}

func (w *World) GWFile() string {
	e := w.eol()
	var b strings.Builder
	b.WriteString("SID,DATE,Level" + e)
	for k, p := range w.GWSeries {
		if w.Decoys > 0 && k == 0 {
			fmt.Fprintf(&b, "%s,%s,%s%s", "9Z1", FmtDate(p.Day, w.Cfg.DateFormat), "7", e)
		}
		if w.Alt != 0 && k == 0 && (w.Alt>>1)%2 == 0 {
			// the second soil profile (soilId=9A1) has a series of its own: the same dates, the table 3 dm deeper; the file
			// is kept in date order, so the two wells alternate line by line (which of them comes first varies)
			fmt.Fprintf(&b, "%s,%s,%s%s", "9A1", FmtDate(p.Day, w.Cfg.DateFormat), fnum(p.Level+3), e)
		}
		fmt.Fprintf(&b, "%s,%s,%s%s", w.Soil.ID, FmtDate(p.Day, w.Cfg.DateFormat), fnum(p.Level), e)
		if w.Alt != 0 && !(k == 0 && (w.Alt>>1)%2 == 0) {
			fmt.Fprintf(&b, "%s,%s,%s%s", "9A1", FmtDate(p.Day, w.Cfg.DateFormat), fnum(p.Level+3), e)
		}
		if w.Decoys > 1 && k%3 == 1 {
			// another soil's measurement between the lines of this soil (file kept in date order)
			fmt.Fprintf(&b, "%s,%s,%s%s", "9Z2", FmtDate(p.Day, w.Cfg.DateFormat), "33", e)
		}
	}
	return b.String()
}

func precoFile(e string) string {
	var b strings.Builder
	b.WriteString("Mo Corr" + e)
	vals := []float64{1.22, 1.23, 1.19, 1.10, 1.08, 1.07, 1.07, 1.07, 1.08, 1.11, 1.16, 1.20}
	for i, v := range vals {
		fmt.Fprintf(&b, "%2d %4.2f%s", i+1, v, e)
	}
	return b.String()
}

var precoVals = []float64{1.22, 1.23, 1.19, 1.10, 1.08, 1.07, 1.07, 1.07, 1.08, 1.11, 1.16, 1.20}

// OutCol is one column of an output configuration.
type OutCol struct {
	Var      string
	I1, I2   int
	Fmt      string
	Width    int
	Modifier float64
}

func outputConfigYAML(cols []OutCol, header bool, sepFill ...string) string {
	var b strings.Builder
	sep, fill := ",", " "
	if len(sepFill) == 2 {
		if sepFill[0] != "" {
			sep = sepFill[0]
		}
		if sepFill[1] != "" {
			fill = sepFill[1]
		}
	}
	b.WriteString("FillCharacter: '" + fill + "'\nSeperatorCharacter: '" + sep + "'\nNaValue: n.a.\nDataColumns:\n")
	for _, c := range cols {
		f := c.Fmt
		if f == "" {
			f = "%v"
		}
		wd := c.Width
		if wd == 0 {
			wd = 24
		}
		fmt.Fprintf(&b, "- Format: '%s'\n  DataAlignment: right\n  Width: %d\n  VariableName: %s\n", f, wd, c.Var)
		if c.I1 != 0 {
			fmt.Fprintf(&b, "  VarIndex1: %d\n", c.I1)
		}
		if c.I2 != 0 {
			fmt.Fprintf(&b, "  VarIndex2: %d\n", c.I2)
		}
		if c.Modifier != 0 {
			fmt.Fprintf(&b, "  Modifier: %v\n", c.Modifier)
		}
	}
	b.WriteString("Headlines:\n  1:\n")
	for i, c := range cols {
		name := c.Var
		if c.I1 != 0 || c.I2 != 0 {
			name = fmt.Sprintf("%s_%d_%d", c.Var, c.I1, c.I2)
		}
		fmt.Fprintf(&b, "  - ColumnName: %s\n    TextAlignment: left\n    StartColumn: %d\n    EndColumn: %d\n", name, i+1, i+1)
	}
	return b.String()
}

const mgmtOutYAML = `eventformats:
  tillage:
    eventname: tillage
    enabled: true
    additionalfields:
      Depth: '%dcm'
      Type: '%d'
  irrigation:
    eventname: irrigation
    enabled: true
    additionalfields:
      Amount: '%dmm'
      NO3: '%vkg/ha'
  sowing:
    eventname: sowing
    enabled: true
    additionalfields:
      Crop: '%s'
  harvest:
    eventname: harvest
    enabled: true
    additionalfields:
      Crop: '%s'
      Residue: '%v'
  fertilization:
    eventname: fertilization
    enabled: true
    additionalfields:
      Fertilizer: '%s'
      Ndirect:    '%v'
      NH4:        '%v'
seperatorrune: 32
`

// OutputCfg selects the columns of the generated output configurations.
type OutputCfg struct {
	Sep, Fill string // separator (CSV style) and fill character (fixed-width style); "" = ',' and ' '
	Daily  []OutCol
	Yearly []OutCol
	Crop   []OutCol
	PF     []OutCol
}

func defaultOutputCfg() OutputCfg {
	return OutputCfg{
		Daily:  []OutCol{{Var: "AKTUELL", Fmt: "%s", Width: 12}, {Var: "TEMPdaily"}, {Var: "REGENdaily"}, {Var: "GRW"}},
		Yearly: []OutCol{{Var: "AKTUELL", Fmt: "%s", Width: 12}, {Var: "OUTSUM"}, {Var: "SICKER"}},
		Crop:   []OutCol{{Var: "Crop", Fmt: "%s", Width: 6}, {Var: "SowDate", Fmt: "%s", Width: 12}, {Var: "HarvestYear", Fmt: "%d", Width: 6}, {Var: "HarvestDOY", Fmt: "%d", Width: 6}, {Var: "SowDOY", Fmt: "%d", Width: 6}, {Var: "EmergDOY", Fmt: "%d", Width: 6}, {Var: "AnthDOY", Fmt: "%d", Width: 6}, {Var: "MatDOY", Fmt: "%d", Width: 6}, {Var: "Yield"}, {Var: "Biomass"}, {Var: "Code", Fmt: "%s", Width: 8}},
	}
}

// Files renders every input file of the project (relative paths).
func (w *World) Files(oc *OutputCfg, ww *WeatherWorld) FileSet {
	fs := FileSet{}
	pdir := "project/" + w.Loc + "/"
	fs[pdir+"config.yml"] = w.ConfigYAML(nil)
	n, c := w.SoilFile()
	fs[pdir+n] = c
	fs[pdir+"poly_"+w.Loc+".txt"] = w.PolyFile()
	n, c = w.RotationFile()
	fs[pdir+n] = c
	fs[pdir+"fert_"+w.Loc+".txt"] = w.FertFile()
	fs[pdir+"irr_"+w.Loc+".txt"] = w.IrrFile()
	if !(w.NoTilFile && len(w.Till) == 0) {
		fs[pdir+"til_"+w.Loc+".txt"] = w.TillFile() // (the one input file a project may do without)
	}
	n, c = w.MeasFile()
	fs[pdir+n] = c
	fs[pdir+"automan.txt"] = w.AutoFile()
	if w.Cfg.GroundWater == "gwTimeSeries" {
		fs[pdir+"gw_"+w.Loc+".csv"] = w.GWFile()
	}
	if oc == nil {
		d := defaultOutputCfg()
		oc = &d
	}
	fs[pdir+"dailyout_conf.yml"] = outputConfigYAML(oc.Daily, true, oc.Sep, oc.Fill)
	fs[pdir+"yearlyout_conf.yml"] = outputConfigYAML(oc.Yearly, true, oc.Sep, oc.Fill)
	fs[pdir+"cropout_conf.yml"] = outputConfigYAML(oc.Crop, true, oc.Sep, oc.Fill)
	if len(oc.PF) > 0 {
		fs[pdir+"pfout_conf.yml"] = outputConfigYAML(oc.PF, true, oc.Sep, oc.Fill)
	}
	fs[pdir+"managementout_conf.yml"] = mgmtOutYAML
	if ww != nil {
		sep := ";"
		lo, hi := ww.Spec.FirstDay, ww.Spec.LastDay
		var skip map[Day]bool
		dropYear, emptyYear := 0, 0
		if f := w.WxFault; f != nil {
			switch f.Kind {
			case "end-early", "torn-tail":
				hi = f.Day
			case "start-late":
				lo = f.Day
			case "gap":
				skip = map[Day]bool{f.Day: true}
			case "year-missing":
				dropYear = f.Day.Year()
			case "year-empty":
				emptyYear = f.Day.Year()
			}
		}
		for name, content := range ww.Files(w.Cfg.WeatherLayout, w.Cfg.NumHeader, w.FCode, w.eol(), lo, hi, skip, sep) {
			if dropYear != 0 && w.Cfg.WeatherLayout == 0 && strings.HasSuffix(name, "."+yearExt(dropYear)) {
				continue
			}
			if emptyYear != 0 && w.Cfg.WeatherLayout == 0 && strings.HasSuffix(name, "."+yearExt(emptyYear)) {
				// the year's file exists but holds its header lines only (an export that was cut short)
				lines := strings.SplitAfter(content, "\n")
				if len(lines) > w.Cfg.NumHeader {
					content = strings.Join(lines[:w.Cfg.NumHeader], "")
				}
			}
			fs["weather/wx/"+name] = content
		}
		if f := w.WxFault; f != nil && f.Kind == "torn-tail" {
			// the file that holds the record of f.Day ends in the middle of that record (a copy that was interrupted)
			last := ""
			for name := range fs {
				if strings.HasPrefix(name, "weather/wx/") && !strings.HasSuffix(name, "preco.txt") && name > last {
					last = name
				}
			}
			if w.Cfg.WeatherLayout == 0 {
				last = "weather/wx/MET_" + w.FCode + "." + yearExt(f.Day.Year())
			}
			if c, ok := fs[last]; ok {
				c = strings.TrimRight(c, "\r\n")
				if k := strings.LastIndexByte(c, '\n'); k > 0 && len(c)-k > 6 {
					fs[last] = c[:k+1+(len(c)-k-1)/2]
				}
			}
		}
	}
	if w.Cfg.Preco {
		fs["weather/wx/preco.txt"] = precoFile(w.eol())
	}
	if w.Alt != 0 && ww != nil {
		ra := NewRNG(w.Alt)
		// second weather folder: another series, same station code and period, own correction factors
		ws2 := w.Weather
		ws2.Sub = ra.U64()
		ww2 := BuildWeather(&ws2, w.Cfg.NoneValue, false)
		for name, content := range ww2.Files(w.Cfg.WeatherLayout, w.Cfg.NumHeader, w.FCode, w.eol(), ww.Spec.FirstDay, ww.Spec.LastDay, nil, ";") {
			fs["weather/wx2/"+name] = content
		}
		var b strings.Builder
		b.WriteString("Mo Corr" + w.eol())
		for i := 0; i < 12; i++ {
			fmt.Fprintf(&b, "%2d %4.2f%s", i+1, 1.01+0.02*float64((i*5+int(w.Alt%7))%12), w.eol())
		}
		fs["weather/wx2/preco.txt"] = b.String()
		// second set of project files under the extension "alt"
		w2 := *w
		w2.Auto = genAutoLines(ra.Sub("auto", 0), w)
		if !w2.autoValid() {
			w2.Auto = append([]AutoLine{}, w.Auto...)
			for i := range w2.Auto {
				// other irrigation and N settings, same windows
				w2.Auto[i].IrrMax = 5 + (w2.Auto[i].IrrMax+15)%50
				w2.Auto[i].IrrLow = 40 + (w2.Auto[i].IrrLow+10)%30
				w2.Auto[i].NDem1 = (w2.Auto[i].NDem1 + 60) % 180
			}
		}
		if w.GWHi >= 15 {
			w2.GWHi, w2.GWLo = 3, 9 // a table inside the profile instead of far below it
		} else {
			w2.GWHi, w2.GWLo = w.GWHi+18, w.GWLo+25
		}
		w2.IrrOn = !w.IrrOn
		_, c := w.RotationFile()
		fs[pdir+"crop_"+w.Loc+".alt"] = c
		fs[pdir+"automan.alt"] = w2.AutoFile()
		fs[pdir+"poly_"+w.Loc+".alt"] = w2.PolyFile()
	}
	if w.BadEnt && ww != nil && w.earlyFieldDays() > 0 {
		// a series that begins on this field's first simulated day: it covers the field, but not the field that starts earlier
		for name, content := range ww.Files(w.Cfg.WeatherLayout, w.Cfg.NumHeader, w.FCode+"late", w.eol(), w.Start(), ww.Spec.LastDay, nil, ";") {
			fs["weather/wx/"+name] = content
		}
	}
	if w.BadEnt && ww != nil {
		// a series that ends before the simulation does: at the end of the last-but-one simulated year, or a month early
		hi := DayOf(w.Cfg.End.Year()-1, 12, 31)
		if hi <= w.Start()+5 {
			hi = w.Cfg.End - 30
		}
		if hi > w.Start()+5 {
			for name, content := range ww.Files(w.Cfg.WeatherLayout, w.Cfg.NumHeader, w.FCode+"short", w.eol(), ww.Spec.FirstDay, hi, nil, ";") {
				fs["weather/wx/"+name] = content
			}
		}
	}
	if w.BadEnt && ww != nil {
		// a station whose weather files exist but cannot be opened (a link that points to itself: ELOOP)
		for name := range ww.Files(w.Cfg.WeatherLayout, w.Cfg.NumHeader, w.FCode+"loop", w.eol(), ww.Spec.FirstDay, ww.Spec.LastDay, nil, ";") {
			fs["weather/wx/"+name] = symlinkLoopMarker
		}
	}
	if w.BadEnt && ww != nil {
		gap := w.Start() + (w.Cfg.End-w.Start())/2
		for name, content := range ww.Files(w.Cfg.WeatherLayout, w.Cfg.NumHeader, w.FCode+"gap", w.eol(), ww.Spec.FirstDay, ww.Spec.LastDay, map[Day]bool{gap: true}, ";") {
			fs["weather/wx/"+name] = content
		}
	}
	return fs
}

// symlinkLoopMarker as file content: the path becomes a symbolic link to itself (it exists, opening it fails).
const symlinkLoopMarker = "\x00symlink-loop"

// WriteFiles puts a file set under root; the parameter folder is a symlink to
// the repository's example parameters (read from the current working tree).
func WriteFiles(root string, fs FileSet, paramDir string) error {
	names := make([]string, 0, len(fs))
	for n := range fs {
		names = append(names, n)
	}
	sort.Strings(names)
	for _, n := range names {
		p := filepath.Join(root, n)
		if err := os.MkdirAll(filepath.Dir(p), 0o755); err != nil {
			return err
		}
		if fs[n] == symlinkLoopMarker {
			os.Remove(p)
			if err := os.Symlink(filepath.Base(p), p); err != nil {
				return err
			}
			continue
		}
		if err := os.WriteFile(p, []byte(fs[n]), 0o644); err != nil {
			return err
		}
	}
	link := filepath.Join(root, "parameter")
	if _, err := os.Lstat(link); err != nil && paramDir != "" {
		if err := os.Symlink(paramDir, link); err != nil {
			return err
		}
	}
	return nil
}

// customParamFolder creates <root>/pcustom: a copy of the parameter folder in which every custom crop code of the
// worlds has the files and table lines of its base crop.
func customParamFolder(root, paramDir string, worlds []*World) error {
	need := false
	for _, w := range worlds {
		if len(w.CropAlias) > 0 {
			need = true
		}
	}
	if !need {
		return nil
	}
	dst := filepath.Join(root, "pcustom")
	if err := copyDir(paramDir, dst); err != nil {
		return err
	}
	for _, w := range worlds {
		bases := make([]string, 0, len(w.CropAlias))
		for b := range w.CropAlias {
			bases = append(bases, b)
		}
		sort.Strings(bases)
		for _, base := range bases {
			alias := w.CropAlias[base]
			for _, ext := range []string{"", ".yml"} {
				if b, err := os.ReadFile(filepath.Join(paramDir, "PARAM."+base+ext)); err == nil {
					os.WriteFile(filepath.Join(dst, "PARAM."+alias+ext), b, 0o644)
				}
			}
			for _, table := range []string{"CROP_N.TXT", "EVAPO.HAU"} {
				b, err := os.ReadFile(filepath.Join(dst, table))
				if err != nil {
					return err
				}
				lines := strings.Split(string(b), "\n")
				var out []string
				done := false
				for _, l := range lines {
					out = append(out, l)
					if !done && len(l) > 4 && strings.TrimSpace(l[:3]) == base && l[3] == ' ' {
						out = append(out, pad(alias, 3)+l[3:])
						done = true
					}
				}
				os.WriteFile(filepath.Join(dst, table), []byte(strings.Join(out, "\n")), 0o644)
			}
		}
	}
	return nil
}

// reducedParamFolder creates <root>/pless: a copy of the parameter folder whose texture tables hold only the
// textures of world w (a user's trimmed parameter set). Lines of w select it with parameter=pless.
func reducedParamFolder(root, paramDir string, w *World) error {
	dst := filepath.Join(root, "pless")
	if err := copyDir(paramDir, dst); err != nil {
		return err
	}
	keep := map[string]bool{}
	for _, h := range w.Soil.Horizons {
		keep[strings.ToUpper(pad(strings.TrimSpace(h.Tex), 3))] = true
	}
	keep["SL3"] = true // the decoy soils
	// PARCAP.TRU: two lines per texture, no header
	if b, err := os.ReadFile(filepath.Join(paramDir, "PARCAP.TRU")); err == nil {
		lines := strings.Split(string(b), "\n")
		var out []string
		for i := 0; i+1 < len(lines); i += 2 {
			if len(lines[i]) >= 3 && keep[strings.ToUpper(lines[i][:3])] {
				out = append(out, lines[i], lines[i+1])
			}
		}
		os.WriteFile(filepath.Join(dst, "PARCAP.TRU"), []byte(strings.Join(out, "\n")+"\n"), 0o644)
	}
	// HYPAR.TRU: one header line
	if b, err := os.ReadFile(filepath.Join(paramDir, "HYPAR.TRU")); err == nil {
		lines := strings.Split(string(b), "\n")
		out := []string{lines[0]}
		for _, l := range lines[1:] {
			if len(l) >= 3 && keep[strings.ToUpper(l[:3])] {
				out = append(out, l)
			}
		}
		os.WriteFile(filepath.Join(dst, "HYPAR.TRU"), []byte(strings.Join(out, "\n")+"\n"), 0o644)
	}
	// every other table of this folder differs a little from the shipped one, so that a table parsed once per
	// session (instead of once per run and folder) changes the results of the lines that run on this folder
	if b, err := os.ReadFile(filepath.Join(paramDir, "FERTILIZ.TXT")); err == nil {
		re := regexp.MustCompile(`^(\S+\s+\S+\s+\S+\s+\S+\s+\S+\s+\S+\s+)(\d\.\d\d)`)
		lines := strings.Split(string(b), "\n")
		for i, l := range lines {
			if i == 0 {
				continue
			}
			if m := re.FindStringSubmatch(l); m != nil {
				v, _ := strconv.ParseFloat(m[2], 64)
				if v <= 0.9 {
					lines[i] = m[1] + fmt.Sprintf("%.2f", v+0.07) + l[len(m[0]):] // volatilisation loss
				}
			}
		}
		os.WriteFile(filepath.Join(dst, "FERTILIZ.TXT"), []byte(strings.Join(lines, "\n")), 0o644)
	}
	if b, err := os.ReadFile(filepath.Join(paramDir, "EVAPO.HAU")); err == nil {
		re := regexp.MustCompile(`0\.(\d)(\d)`)
		lines := strings.Split(string(b), "\n")
		for i, l := range lines {
			if i == 0 || len(l) < 64 {
				continue
			}
			// the twelve monthly factors: + 0.01 each (second decimal 0..8)
			lines[i] = l[:4] + re.ReplaceAllStringFunc(l[4:64], func(x string) string {
				if x[3] < '9' {
					return x[:3] + string(x[3]+1)
				}
				return x
			}) + l[64:]
		}
		os.WriteFile(filepath.Join(dst, "EVAPO.HAU"), []byte(strings.Join(lines, "\n")), 0o644)
	}
	ents, _ := os.ReadDir(paramDir)
	for _, e := range ents {
		n := e.Name()
		if !strings.HasPrefix(n, "PARAM") {
			continue
		}
		b, err := os.ReadFile(filepath.Join(paramDir, n))
		if err != nil {
			continue
		}
		ed := cropEdit{Name: "MINTMP", Val: "3.5"}
		var out string
		if strings.HasSuffix(n, ".yml") {
			out, err = editYml(string(b), ed)
		} else {
			out, err = editClassic(string(b), ed)
		}
		if err == nil {
			os.WriteFile(filepath.Join(dst, n), []byte(out), 0o644)
		}
	}
	return nil
}

// Args returns the batch-line arguments for this world.
func (w *World) Args(extra ...string) []string {
	a := []string{"project=" + w.Loc, "plotNr=" + w.Plot, "poligonID=" + w.Poly, "fcode=" + w.FCode}
	return append(a, extra...)
}
