package main

// Transient input faults positioned in the schedule (batch scenarios, C11).
//
// latefile   — the tillage schedule of one project (the one input file a run may do without) is not there when the
//              batch starts and appears at a seeded scheduler decision. A run that begins to execute after that
//              decision must see the file (byte-identical to its solo run with the file); a run that began earlier
//              equals its solo run with the file or its solo run without it. Nothing a failed open leaves behind in
//              the session may reach a later run.
// unreadable — a pooled input file cannot be read at the very moment of its first load (renamed away while the first
//              run that asks for it is parked at the pooled-file Get, back in place one decision later). The program
//              may give up (the shipped code ends the process with a message naming the file) or fail that one line;
//              it must never go on with other content: every other line of the session, in particular every later
//              reader of the same file, keeps all fault-free oracles. The faulted batch runs in a child process.

import (
	"bytes"
	"encoding/json"
	"fmt"
	"os"
	"path/filepath"
	"strings"
	"time"
)

func execLateFile(sc *Scenario, env *Env, root string, refs []*lineRef, order []int, run func(order []int, spec *SchedSpec, disk *SimDisk, abortAt int) *BatchOutcome, res *Result) []batchViol {
	r := NewRNG(sc.Sched.Sub).Sub("latefile", 0)
	plain := func() []batchViol {
		out := run(order, sc.Sched, NewSimDisk(), 0)
		return checkBatchOutcome(sc, order, refs, out, res, false)
	}
	// candidate projects: a tillage schedule with events inside the period, used by at least one good line
	var cands []int
	for wi, w := range sc.Worlds {
		inPeriod := false
		for _, t := range w.Till {
			inPeriod = inPeriod || (t.Day > w.Start() && t.Day < w.Cfg.End && t.Depth > 0)
		}
		used := false
		for _, l := range sc.Lines {
			used = used || (l.World == wi && l.Bad == "")
		}
		if inPeriod && used {
			cands = append(cands, wi)
		}
	}
	if len(cands) == 0 {
		return plain()
	}
	wi := cands[r.Intn(len(cands))]
	w := sc.Worlds[wi]
	file := filepath.Join(root, "project", w.Loc, "til_"+w.Loc+".txt")
	away := file + ".not-yet-delivered"
	if _, err := os.Stat(file); err != nil {
		return plain()
	}
	// second reference of every line of that project: the same line alone while the file is absent
	if os.Rename(file, away) != nil {
		return plain()
	}
	without := map[int]*lineRef{}
	for i, l := range sc.Lines {
		if l.World == wi {
			without[i] = freshReference(env, root, sc.lineArgs(i), outIDOf(sc, i))
			res.add("reference.runs", 1)
		}
	}
	os.Rename(away, file)
	for _, ref := range without {
		if ref == nil || ref.died || ref.crashed != "" {
			return plain() // the line cannot run alone without the file: not this fault's subject
		}
	}
	// 1. learn the schedule, 2. the same schedule with the file absent until a seeded decision
	probe := run(order, sc.Sched, NewSimDisk(), 0)
	vs := checkBatchOutcome(sc, order, refs, probe, res, false)
	n := len(probe.Decisions)
	if n < 3 {
		return vs
	}
	at := r.Range(1, n-1)
	if r.Bool(0.5) {
		at = r.Range(1, min(n-1, 60)) // early: most runs have not started yet
	}
	// half of the time between the first and the last start of a run that reads the file (one before, one after)
	if lo, hi, ok := startSpan(probe, order, func(li int) bool { return sc.Lines[li].World == wi }); ok && r.Bool(0.5) {
		at = r.Range(lo+1, hi)
	}
	if s := sc.Params["arriveat"]; s != "" {
		fmt.Sscan(s, &at)
	}
	sp := *sc.Sched
	sp.Decisions, sp.Policy = probe.Decisions, ""
	os.Rename(file, away)
	arrived := false
	batchFaultHook = func(k int) {
		if k >= at && !arrived {
			arrived = true
			os.Rename(away, file)
		}
	}
	out := run(order, &sp, NewSimDisk(), 0)
	batchFaultHook = nil
	if !arrived {
		os.Rename(away, file)
	}
	res.add("fault.optional-input-file-arrives-mid-batch", 1)
	out.Excused = map[int]string{}
	for pos, li := range order {
		if sc.Lines[li].World == wi {
			out.Excused[pos] = "reads the tillage schedule that arrives late"
		}
	}
	tag := fmt.Sprintf("[tillage schedule of project %s absent until decision %d] ", w.Loc, at)
	for _, v := range checkBatchOutcome(sc, order, refs, out, res, false) {
		v.detail = tag + v.detail
		vs = append(vs, v)
	}
	if out.Panic != "" || out.DecisionCap || out.Deadlock != "" {
		return vs
	}
	failed := map[string]bool{}
	for _, l := range parseDispatcher(out.Stdout).ErrorLines {
		id := l
		if k := strings.IndexByte(l, ' '); k > 0 {
			id = l[:k]
		}
		failed[id] = true
	}
	for pos := range out.Excused {
		li := order[pos]
		id := fmt.Sprintf("[%d]", pos)
		with, wo := refs[li], without[li]
		got := outputsOf(out.Disk, outIDOf(sc, li))
		startedAt, started := out.StartDec[id]
		if !started {
			continue // never dispatched (cannot happen in a completed batch; termination oracles report it)
		}
		eq := func(ref *lineRef) bool {
			return ref.success == !failed[id] && (diffFiles(ref.files, got) == "" || !ref.success)
		}
		if startedAt >= at {
			res.add("reach.run-started-after-the-file-arrived", 1)
			if !eq(with) {
				d := diffFiles(with.files, got)
				if with.success == failed[id] {
					d = fmt.Sprintf("alone it succeeds=%v, in the batch it is listed as failed=%v", with.success, failed[id])
				}
				vs = append(vs, batchViol{"late-file", "run-started-after-the-file-arrived-does-not-see-it", tag + fmt.Sprintf("line %s began to execute at decision %d, when the file was in place, but differs from its solo run with the file: %s", id, startedAt, d), id})
			}
			continue
		}
		res.add("reach.run-started-before-the-file-arrived", 1)
		if !eq(with) && !eq(wo) {
			vs = append(vs, batchViol{"late-file", "run-equals-neither-solo-run", tag + fmt.Sprintf("line %s (started at decision %d) equals neither its solo run with the file (%s) nor without it (%s)", id, startedAt, diffFiles(with.files, got), diffFiles(wo.files, got)), id})
		}
	}
	return vs
}

// execUnreadableParent runs the faulted batch in a child process (the shipped code answers an unreadable pooled file by
// ending the process) and judges the child's fate.
func execUnreadableParent(sc *Scenario, env *Env) *Result {
	t0 := time.Now()
	res := &Result{Idx: sc.Idx, Status: "ok"}
	c := cloneScenario(sc)
	c.Params["child"] = "1"
	tmp, err := os.MkdirTemp(env.Scratch, "unr-")
	if err != nil {
		res.Status, res.Note = "crash", err.Error()
		return res
	}
	defer os.RemoveAll(tmp)
	in, outF := filepath.Join(tmp, "sc.json"), filepath.Join(tmp, "res.json")
	os.WriteFile(in, c.JSON(), 0o644)
	stderr, code, timedOut := runWorkerProc(os.Args[0], []string{"VERIF_MODE=one", "VERIF_SCENARIO=" + in, "VERIF_OUT=" + outF, "VERIF_SCRATCH=" + tmp, "VERIF_SHOW_LOG=1"}, 4*time.Minute)
	if b, rerr := os.ReadFile(outF); rerr == nil {
		var r Result
		if json.Unmarshal(b, &r) == nil {
			r.Idx = sc.Idx
			r.add("mode.unreadable", 1)
			r.WallMS = nowMS(t0)
			return &r
		}
	}
	res.add("mode.unreadable", 1)
	res.WallMS = nowMS(t0)
	res.Hash = fmt.Sprintf("unreadable-%d", sc.Idx)
	switch {
	case timedOut || code == exitHang:
		res.Status, res.Note = "crash", "child of the unreadable-file scenario hung: "+firstLine(lastNonEmpty(stderr))
	case code == 1 && !strings.Contains(stderr, "panic:") && !strings.Contains(stderr, "goroutine "):
		// the program gave up (log.Fatal: exit status 1 with a message; for most files "Error occured while reading <file>",
		// for an output configuration the message of the regeneration path): nothing was computed with other content
		res.add("fault.pooled-file-unreadable-or-vanished.process-ended", 1)
		res.add("reach.process-ended-at-the-unreadable-file", 1)
	default:
		res.Status, res.Note = "crash", fmt.Sprintf("child of the unreadable-file scenario: exit %d: %s", code, firstLine(lastNonEmpty(stderr)))
	}
	return res
}

func execUnreadable(sc *Scenario, env *Env, root string, refs []*lineRef, order []int, run func(order []int, spec *SchedSpec, disk *SimDisk, abortAt int) *BatchOutcome, res *Result) []batchViol {
	r := NewRNG(sc.Sched.Sub).Sub("unreadable", 0)
	// the parameter folder of the scenario becomes a copy of the shipped one (normally a link to it), so that the
	// fault can also hit crop parameter files and tables
	if link := filepath.Join(root, "parameter"); true {
		if fi, err := os.Lstat(link); err == nil && fi.Mode()&os.ModeSymlink != 0 {
			os.Remove(link)
			if copyDir(env.ParamDir, link) != nil {
				os.RemoveAll(link)
				os.Symlink(env.ParamDir, link)
			}
		}
	}
	// the crop parameter files of the format no project of this batch uses carry another value (a folder calibrated in
	// one format only): nothing may fall back on them
	if pdir := filepath.Join(root, "parameter"); !isLink(pdir) {
		yml, classic := false, false
		for _, w := range sc.Worlds {
			if w.Cfg.CropParamFmt == "yml" {
				yml = true
			} else {
				classic = true
			}
		}
		if yml != classic {
			ents, _ := os.ReadDir(pdir)
			for _, e := range ents {
				name := e.Name()
				if !strings.HasPrefix(name, "PARAM") || strings.HasSuffix(name, ".yml") == yml {
					continue
				}
				b, err := os.ReadFile(filepath.Join(pdir, name))
				if err != nil {
					continue
				}
				ed := cropEdit{Name: "MAXAMAX", Val: "11"}
				var out string
				if strings.HasSuffix(name, ".yml") {
					out, err = editYml(string(b), ed)
				} else {
					out, err = editClassic(string(b), ed)
				}
				if err == nil {
					os.WriteFile(filepath.Join(pdir, name), []byte(out), 0o644)
					res.add("reach.unused-format-crop-file-differs", 1)
				}
			}
		}
	}
	probe := run(order, sc.Sched, NewSimDisk(), 0)
	vs := checkBatchOutcome(sc, order, refs, probe, res, false)
	// first loads: the first release of a run parked at the pooled-file Get of a path
	type load struct {
		dec        int
		task, path string
	}
	var loads []load
	seen := map[string]bool{}
	for _, rel := range probe.Released {
		if rel.Point == "pool.get" && !seen[rel.Detail] {
			seen[rel.Detail] = true
			// project files and the scenario's own copies of the parameter folder (never the shipped parameter folder itself)
			if strings.HasPrefix(rel.Detail, root+"/project/") || strings.HasPrefix(rel.Detail, root+"/pcustom/") || strings.HasPrefix(rel.Detail, root+"/pless/") || (strings.HasPrefix(rel.Detail, root+"/parameter/") && !isLink(filepath.Join(root, "parameter"))) {
				loads = append(loads, load{rel.Dec, rel.Task, rel.Detail})
			}
		}
	}
	if len(loads) == 0 {
		return vs // coarse granularity (no parking at pooled-file Gets) or nothing loaded
	}
	l := loads[r.Intn(len(loads))]
	if r.Bool(0.35) {
		// a crop parameter file (loaded at the first sowing of that crop, asked for again at every later sowing)
		var crops []load
		for _, c := range loads {
			if strings.Contains(c.path[strings.LastIndexByte(c.path, '/')+1:], "PARAM") {
				crops = append(crops, c)
			}
		}
		if len(crops) > 0 {
			l = crops[r.Intn(len(crops))]
		}
	} else if r.Bool(0.4) {
		// the project configuration: the file whose absence has a fallback (defaults)
		for _, c := range loads {
			if strings.HasSuffix(c.path, "/config.yml") {
				l = c
				break
			}
		}
	}
	sp := *sc.Sched
	sp.Decisions, sp.Policy = probe.Decisions, ""
	away := l.path + ".unreadable"
	n := len(probe.Decisions)
	// (not the project configuration: a run that finds no config.yml writes a default one through the result-file seam and
	// reads it back from the real disk - the simulated disk cannot play that round trip, see DESIGN section 10)
	if r.Bool(0.4) && l.dec+2 < n && !strings.HasSuffix(l.path, "/config.yml") {
		// variant: the file vanishes for good some time AFTER the session has loaded it (clean-up script, unmounted
		// share). The session holds its content; whoever needs it later must get exactly that content or the program
		// must give up - never a substitute.
		at := r.Range(l.dec+1, n-1)
		gone := false
		batchFaultHook = func(k int) {
			if k >= at && !gone {
				gone = true
				os.Rename(l.path, away)
			}
		}
		res.add("fault.pooled-file-vanishes-after-its-first-load", 1)
		out := run(order, &sp, NewSimDisk(), 0)
		batchFaultHook = nil
		if gone {
			os.Rename(away, l.path)
		}
		res.add("reach.session-survived-the-vanished-file", 1)
		tag := fmt.Sprintf("[%s removed at decision %d, after the session had loaded it at decision %d] ", strings.TrimPrefix(l.path, root+"/"), at, l.dec)
		for _, v := range checkBatchOutcome(sc, order, refs, out, res, false) {
			v.detail = tag + v.detail
			vs = append(vs, v)
		}
		return vs
	}
	state := 0
	batchFaultHook = func(k int) {
		switch {
		case k == l.dec && state == 0:
			state = 1
			os.Rename(l.path, away)
		case k > l.dec && state == 1:
			state = 2
			os.Rename(away, l.path)
		}
	}
	res.add("fault.pooled-file-unreadable", 1)
	out := run(order, &sp, NewSimDisk(), 0) // the shipped code does not come back from here
	batchFaultHook = nil
	if state == 1 {
		os.Rename(away, l.path)
	}
	res.add("reach.session-survived-the-unreadable-file", 1)
	tag := fmt.Sprintf("[%s unreadable at its first load (by run %s, decision %d), readable again one decision later] ", strings.TrimPrefix(l.path, root+"/"), l.task, l.dec)
	out.Excused = map[int]string{}
	victimPos := logIDNum(l.task)
	out.Excused[victimPos] = "met the unreadable file"
	for _, v := range checkBatchOutcome(sc, order, refs, out, res, false) {
		v.detail = tag + v.detail
		vs = append(vs, v)
	}
	if out.Panic != "" || out.DecisionCap || out.Deadlock != "" || victimPos >= len(order) {
		return vs
	}
	// the run that met the fault: either unaffected, or failed once under its own id with nothing wrong written
	li := order[victimPos]
	got := outputsOf(out.Disk, outIDOf(sc, li))
	isFailed := false
	for _, el := range parseDispatcher(out.Stdout).ErrorLines {
		isFailed = isFailed || strings.HasPrefix(el, l.task+" ") || el == l.task
	}
	if !isFailed {
		if refs[li].success {
			if d := diffFiles(refs[li].files, got); d != "" {
				vs = append(vs, batchViol{"unreadable-file", "run-went-on-with-other-content", tag + fmt.Sprintf("line %s is not reported as failed and differs from its solo run: %s", l.task, d), l.task})
			}
		}
	} else {
		for name, data := range got {
			ref, ok := refs[li].files[name]
			if !isDataStream(name) {
				continue
			}
			if !ok || len(data) > len(ref) || !bytes.Equal(data, ref[:len(data)]) {
				vs = append(vs, batchViol{"unreadable-file", "failed-line-wrote-wrong-data", tag + fmt.Sprintf("line %s failed; its stream %s (%d bytes) is not a prefix of its solo stream", l.task, name, len(data)), l.task})
				break
			}
		}
	}
	return vs
}

// execReplaced: a pooled project file (the fertilisation schedule of one project) is replaced by another version at a
// seeded scheduler decision while the batch is under way (an operator saving an edited file, rsync delivering a newer
// one). The session may serve every run the version it loaded first, or let later runs see the new one; what it must
// not do is compute a run from a mixture, or let the replacement reach a line of another project. Oracle: every line
// of that project equals its solo run on the old version or its solo run on the new version - all its streams from the
// same one; every other line keeps all fault-free oracles.
func execReplaced(sc *Scenario, env *Env, root string, refs []*lineRef, order []int, run func(order []int, spec *SchedSpec, disk *SimDisk, abortAt int) *BatchOutcome, res *Result) []batchViol {
	r := NewRNG(sc.Sched.Sub).Sub("replaced", 0)
	plain := func() []batchViol {
		out := run(order, sc.Sched, NewSimDisk(), 0)
		return checkBatchOutcome(sc, order, refs, out, res, false)
	}
	var cands []int
	for wi, w := range sc.Worlds {
		in := false
		for _, f := range w.Fert {
			in = in || (f.Day > w.Start() && f.Day < w.Cfg.End)
		}
		used := false
		for _, l := range sc.Lines {
			used = used || (l.World == wi && l.Bad == "")
		}
		if used && ((in && !w.Cfg.AutoFert) || ((w.Cfg.AutoIrr || w.Cfg.AutoFert) && len(w.Rot) > 2) || w.Cfg.WeatherLayout != 0) {
			cands = append(cands, wi)
		}
	}
	if len(cands) == 0 {
		return plain()
	}
	wi := cands[r.Intn(len(cands))]
	for _, c := range cands {
		if cw := sc.Worlds[c]; (cw.Cfg.AutoIrr || cw.Cfg.AutoFert) && len(cw.Rot) > 2 && r.Bool(0.7) {
			wi = c
			break
		}
	}
	w := sc.Worlds[wi]
	what := "fertilisation schedule"
	file := filepath.Join(root, "project", w.Loc, "fert_"+w.Loc+".txt")
	w2 := *w
	w2.Fert = append([]FertEvent{}, w.Fert...)
	for i := range w2.Fert {
		w2.Fert[i].Amt = 10 + (w2.Fert[i].Amt+37)%290
	}
	newContent := []byte(w2.FertFile())
	if (w.Cfg.AutoIrr || w.Cfg.AutoFert) && len(w.Rot) > 2 && r.Bool(0.85) {
		// the automatic-management table: a run asks for it once per rotation entry, so one run can meet both versions
		what = "automatic-management table"
		file = filepath.Join(root, "project", w.Loc, "automan.txt")
		w2.Auto = append([]AutoLine{}, w.Auto...)
		for i := range w2.Auto {
			w2.Auto[i].IrrMax = 5 + (w2.Auto[i].IrrMax+15)%50
			w2.Auto[i].IrrLow = 40 + (w2.Auto[i].IrrLow+10)%30
			w2.Auto[i].NDem1 = (w2.Auto[i].NDem1 + 60) % 180
			w2.Auto[i].NDem2 = (w2.Auto[i].NDem2 + 60) % 180
		}
		newContent = []byte(w2.AutoFile())
	}
	mustSeeNew := false
	hasFert := false
	for _, f := range w.Fert {
		hasFert = hasFert || (f.Day > w.Start() && f.Day < w.Cfg.End)
	}
	if w.Cfg.WeatherLayout != 0 && (what == "fertilisation schedule") && (!hasFert || w.Cfg.AutoFert || r.Bool(0.5)) {
		// the multi-year weather file of the project's station: every run reads it for itself when it starts, so a
		// run that begins to execute after the replacement runs alone on the new series - and must do so in the session
		ws2 := w.Weather
		ws2.Sub = r.U64()
		ww, ww2 := BuildWeather(&w.Weather, w.Cfg.NoneValue, sc.Grid), BuildWeather(&ws2, w.Cfg.NoneValue, sc.Grid)
		files := ww2.Files(w.Cfg.WeatherLayout, w.Cfg.NumHeader, w.FCode, w.eol(), ww.Spec.FirstDay, ww.Spec.LastDay, nil, ";")
		if len(files) == 1 {
			for name, content := range files {
				what, mustSeeNew = "weather series", true
				file = filepath.Join(root, "weather", "wx", name)
				newContent = []byte(content)
			}
		}
	}
	if what == "fertilisation schedule" && (!hasFert || w.Cfg.AutoFert) {
		return plain()
	}
	oldContent, err := os.ReadFile(file)
	if err != nil {
		return plain()
	}
	reads := func(i int) bool {
		if sc.Lines[i].World != wi {
			return false
		}
		if what != "weather series" {
			return true
		}
		ex := strings.Join(sc.Lines[i].Extra, " ")
		return !strings.Contains(ex, "fcode=") && !strings.Contains(ex, "WeatherFolder=")
	}
	put := func(b []byte) {
		tmp := file + ".incoming"
		os.WriteFile(tmp, b, 0o644)
		os.Rename(tmp, file)
	}
	// references on the new version
	put(newContent)
	onNew := map[int]*lineRef{}
	for i := range sc.Lines {
		if reads(i) {
			onNew[i] = freshReference(env, root, sc.lineArgs(i), outIDOf(sc, i))
			res.add("reference.runs", 1)
		}
	}
	put(oldContent)
	for _, ref := range onNew {
		if ref == nil || ref.died || ref.crashed != "" {
			return plain()
		}
	}
	if len(onNew) == 0 {
		return plain()
	}
	probe := run(order, sc.Sched, NewSimDisk(), 0)
	vs := checkBatchOutcome(sc, order, refs, probe, res, false)
	n := len(probe.Decisions)
	if n < 3 {
		return vs
	}
	at := r.Range(1, n-1)
	if r.Bool(0.5) {
		at = r.Range(1, min(n-1, 80))
	}
	// a run that asks for the file more than once: put the replacement between two of its Gets (half of the time)
	byTask := map[string][]int{}
	var tasks []string
	for _, rel := range probe.Released {
		if rel.Point == "pool.get" && rel.Detail == file {
			if len(byTask[rel.Task]) == 0 {
				tasks = append(tasks, rel.Task)
			}
			byTask[rel.Task] = append(byTask[rel.Task], rel.Dec)
		}
	}
	var multi []string
	for _, t := range tasks {
		if ds := byTask[t]; len(ds) >= 2 && ds[len(ds)-1] > ds[0] {
			multi = append(multi, t)
		}
	}
	if len(multi) > 0 && r.Bool(0.7) {
		ds := byTask[multi[r.Intn(len(multi))]]
		at = r.Range(ds[0]+1, ds[len(ds)-1])
		res.add("reach.replacement-between-two-gets-of-one-run", 1)
	} else if lo, hi, ok := startSpan(probe, order, reads); ok && mustSeeNew && r.Bool(0.7) {
		at = r.Range(lo+1, hi) // some reader has started before, some reader starts afterwards
	}
	if s := sc.Params["replaceat"]; s != "" {
		fmt.Sscan(s, &at)
	}
	sp := *sc.Sched
	sp.Decisions, sp.Policy = probe.Decisions, ""
	done := false
	batchFaultHook = func(k int) {
		if k >= at && !done {
			done = true
			put(newContent)
		}
	}
	out := run(order, &sp, NewSimDisk(), 0)
	batchFaultHook = nil
	put(oldContent)
	if !done {
		return vs
	}
	res.add("fault.pooled-file-replaced-mid-batch", 1)
	out.Excused = map[int]string{}
	for pos, li := range order {
		if reads(li) {
			out.Excused[pos] = "reads the " + what + " that is replaced"
		}
	}
	// the set-once oracle of the pool history does not apply to the replaced path under this fault (a session may re-read)
	var pool []poolEvent
	for _, ev := range out.Pool {
		if ev.Path != file {
			pool = append(pool, ev)
		}
	}
	out.Pool = pool
	tag := fmt.Sprintf("[%s of project %s replaced at decision %d] ", what, w.Loc, at)
	res.add("fault.replaced."+strings.Fields(what)[0], 1)
	for _, v := range checkBatchOutcome(sc, order, refs, out, res, false) {
		v.detail = tag + v.detail
		vs = append(vs, v)
	}
	if out.Panic != "" || out.DecisionCap || out.Deadlock != "" {
		return vs
	}
	failed := map[string]bool{}
	for _, l := range parseDispatcher(out.Stdout).ErrorLines {
		id := l
		if k := strings.IndexByte(l, ' '); k > 0 {
			id = l[:k]
		}
		failed[id] = true
	}
	for pos := range out.Excused {
		li := order[pos]
		id := fmt.Sprintf("[%d]", pos)
		got := outputsOf(out.Disk, outIDOf(sc, li))
		eq := func(ref *lineRef) bool {
			return ref.success == !failed[id] && (!ref.success || diffFiles(ref.files, got) == "")
		}
		startedAt, started := out.StartDec[id]
		switch {
		case mustSeeNew && started && startedAt >= at && !eq(onNew[li]):
			vs = append(vs, batchViol{"replaced-file", "run-started-after-the-replacement-does-not-see-it", tag + fmt.Sprintf("line %s began to execute at decision %d, when the new %s was in place (a run reads it for itself), but differs from its solo run on it: %s", id, startedAt, what, diffFiles(onNew[li].files, got)), id})
		case eq(refs[li]) && !(mustSeeNew && started && startedAt >= at):
			res.add("reach.line-computed-from-the-old-version", 1)
		case eq(onNew[li]):
			res.add("reach.line-computed-from-the-new-version", 1)
			if mustSeeNew && started && startedAt >= at {
				res.add("reach.run-started-after-the-replacement", 1)
			}
		default:
			vs = append(vs, batchViol{"replaced-file", "run-equals-neither-version", tag + fmt.Sprintf("line %s equals neither its solo run on the old version (%s) nor on the new version (%s)", id, diffFiles(refs[li].files, got), diffFiles(onNew[li].files, got)), id})
		}
	}
	return vs
}

func isLink(p string) bool {
	fi, err := os.Lstat(p)
	return err == nil && fi.Mode()&os.ModeSymlink != 0
}

// startSpan: the earliest and the latest decision at which a run of a selected line began to execute (probe execution).
func startSpan(probe *BatchOutcome, order []int, sel func(li int) bool) (lo, hi int, ok bool) {
	lo, hi = -1, -1
	for pos, li := range order {
		if !sel(li) {
			continue
		}
		d, started := probe.StartDec[fmt.Sprintf("[%d]", pos)]
		if !started {
			continue
		}
		if lo < 0 || d < lo {
			lo = d
		}
		if d > hi {
			hi = d
		}
	}
	return lo, hi, lo >= 0 && hi > lo
}
