package main

// C11 — runs are isolated, always terminate, and failures are reported per run.

import (
	"fmt"
	"strings"
)

func init() {
	register(&CheckDef{
		Prop: "C11", Level: "exploration",
		Gen: func(r *RNG, idx int, tier string) *Scenario {
			if idx%4 == 3 {
				// termination stratum: fertiliser prediction at any latitude, inside a small batch
				sc := genBatch(r, false, 4)
				if sc.Params == nil {
					sc.Params = map[string]string{}
				}
				sc.Params["mode"], sc.Params["stratum"] = "serial", "prognose"
				for i := range sc.Lines {
					w := sc.Worlds[sc.Lines[i].World]
					span := int(w.Cfg.End - w.Start())
					if span < 40 {
						continue
					}
					pd := w.Start() + Day(r.Range(20, span-10))
					lat := round(r.FRange(-70, 70), 1)
					sc.Lines[i].Extra = append(sc.Lines[i].Extra, "VirtualDateFertilizerPrediction="+FmtDate(pd, w.Cfg.DateFormat), fmt.Sprintf("Latitude=%v", lat))
				}
				return sc
			}
			sc := genBatch(r, true, 20)
			if sc.Params == nil {
				sc.Params = map[string]string{}
			}
			sc.Params["mode"] = []string{"serial", "permute", "diskfault", "inputloss", "crash", "latefile", "unreadable", "replaced", "realbin"}[(idx-(idx+1)/4)%9] // every fourth index is the termination stratum above: count the others
			if sc.Params["mode"] == "realbin" {
				// the shipped binary on the real disk, with failing lines. Stratum: the output id of a failing line is the
				// head or the tail of a good line's output id (whatever a failing run tidies up must be its own)
				var bad, good []int
				for i, l := range sc.Lines {
					if l.Bad != "" && len(l.Drop) == 0 && !strings.Contains(strings.Join(l.Extra, " "), "plotNr=") {
						bad = append(bad, i) // (a failing line on the project's own plot: the two ids then share the plot part)
					} else if l.Bad == "" {
						good = append(good, i)
					}
				}
				if len(bad) > 0 && len(good) > 0 && r.Bool(0.7) {
					f, v := bad[r.Intn(len(bad))], good[r.Intn(len(good))]
					fw := sc.Worlds[sc.Lines[f].World]
					fplot := fw.Plot
					for _, a := range sc.Lines[f].Extra {
						if strings.HasPrefix(a, "plotNr=") {
							fplot = a[len("plotNr="):]
						}
					}
					sc.Lines[f].OutTag = "B"
					// both lines in one project (one result folder); the good line stands before the failing one in the batch
					sc.Lines[v].World = sc.Lines[f].World
					var ex []string
					for _, a := range sc.Lines[v].Extra {
						if !strings.HasPrefix(a, "fcode=") && !strings.HasPrefix(a, "soilId=") && !strings.HasPrefix(a, "WeatherFolder=") && !strings.HasPrefix(a, "fileExtension=") && !strings.HasPrefix(a, "LeachingDepth=") {
							ex = append(ex, a)
						}
					}
					sc.Lines[v].Extra = ex
					if r.Bool(0.5) {
						sc.Lines[v].OutTag = "B" + fplot + "Z" // the good line's id begins with the failing line's id
					} else {
						sc.Lines[v].OutTag = "ZB" // the good line's id ends with the failing line's id (when both name the same plot)
					}
					if v > f {
						sc.Lines[v], sc.Lines[f] = sc.Lines[f], sc.Lines[v]
					}
					if r.Bool(0.6) {
						sc.Sched.Concurrency = 1 // the good line has finished when the failing line runs
					}
					sc.Params["relatedids"] = "1"
				}
			}
			if r.Bool(0.3) {
				sc.Params["log"] = "0"
			}
			return sc
		},
		Exec:       execBatch,
		Quick:      300,
		Thorough:   10000,
		Chunk:      5,
		TimeoutS:   150,
		NonTrivial: func(res *Result) bool { return batchNonTrivial(res) && (res.Stats["reach.failing-lines"] > 0 || res.Stats["mode.serial"] > 0) },
		Rule:       "one batch scenario per evaluation: valid lines mixed with lines of each reported-error class (unknown soil id, unknown field id, texture not in the tables, inconsistent fractions, weather gap, tillage inside the crop, start year mismatch) at random positions, any concurrency, executed by the real dispatcher under the seeded scheduler, a ninth each with write errors (full disk, transient, torn write) on one good line's result stream, with a weather year file that disappears at a scheduler decision while the batch is under way, with a crash and re-run over torn survivors, with the one optional input file (tillage schedule) arriving at a scheduler decision (a run that starts afterwards must see it), and with a pooled input file unreadable at the very moment of its first load (child process: the program may give up or fail that line, never go on with other content), and with a pooled project file replaced by another version at a scheduler decision (every line of that project equals its solo run on the old or on the new version, never a mixture), and through the shipped binary on the real disk over stale files (output ids of a failing and a good line head / tail of each other); every fourth scenario instead carries fertiliser-prediction dates at latitudes -70..70 (termination); non-trivial = at least two runs parked simultaneously; distinct = hash of the decision trace",
		ReachKeys:  []string{"reach.interleaved", "reach.failing-lines", "fault.permutation", "fault.write-error.scenarios", "fault.year-file-deleted-mid-batch", "reach.line-failed-by-the-loss", "fault.crash", "fault.optional-input-file-arrives-mid-batch", "reach.run-started-after-the-file-arrived", "reach.run-started-before-the-file-arrived", "reach.process-ended-at-the-unreadable-file", "fault.pooled-file-vanishes-after-its-first-load", "fault.pooled-file-replaced-mid-batch", "reach.run-started-after-the-replacement", "realbin.batches"},
		Assumptions: []string{
			"termination is decided by a CPU watchdog: a worker that makes no progress for 90 s while its scenarios normally need < 1 s is killed and its goroutine dump inspected",
			"the reference of every line is the same line executed alone in a fresh session",
		},
	})
	deathHandlers["C11"] = func(r *Result, stderr string, code int, timedOut bool) {
		if timedOut {
			where := runningModelFrame(stderr)
			if where != "" {
				r.Status = "violation"
				r.Violations = append(r.Violations, Violation{Prop: "C11", Oracle: "termination", Class: "run-does-not-terminate@" + where, Detail: "a run was still executing model code when the watchdog fired (goroutine dump: " + where + ")"})
			}
			return
		}
		// a process exit from inside a run of the batch (log.Fatal / panic) takes every other line with it
		last := firstLine(lastNonEmpty(stderr))
		if strings.Contains(stderr, "panic:") || strings.Contains(stderr, "goroutine ") {
			r.Status = "violation"
			r.Violations = append(r.Violations, Violation{Prop: "C11", Oracle: "isolation", Class: "process-panic-in-batch", Detail: "the whole batch process died: " + panicLine(stderr)})
		} else if code == 1 {
			r.Status = "violation"
			r.Violations = append(r.Violations, Violation{Prop: "C11", Oracle: "isolation", Class: "process-exit-in-batch", Detail: "the whole batch process exited (log.Fatal) instead of failing one line: " + last})
		}
	}
}

func panicLine(stderr string) string {
	for _, l := range strings.Split(stderr, "\n") {
		if strings.HasPrefix(l, "panic:") {
			return l
		}
	}
	return firstLine(stderr)
}
